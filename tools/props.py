#!/usr/bin/env python3
"""Per-property plans: which cases are generated, which relation ties implementation and model,
and which direct oracle is evaluated on the implementation's outputs."""
import os, sys, random, json, itertools
import rta, gen, families
from rta import sx

TRUSTED_BASE = [
    "Coq 8.16.1 kernel (coqc; vm_compute is used in Example/_refuted proofs and to run the model); no native_compute",
    "no axioms: every theorem of Props/ is 'Closed under the global context' unless listed in coverage.assumptions",
    "the hand-written Gallina model coq/Model/*.v: MODELLED, not verified; tied to /repo only by the correspondence check of this run (differential testing, both build profiles)",
    "tools/ (generators, S-expression printer, translation of cases to Coq terms, comparator) and harness/ (Rust driver around the crate's public API, catch_unwind, watchdog)",
    "Rust semantics not modelled: u64 overflow of + and * (unbounded N in the model), RefCell borrow checks, itertools/Iterator adaptors (modelled as list functions), f64",
    "coq/Spec/*.v: the definitions of schedules, reservations and admissible event sequences mean what the literature means",
]

class Ctx:
    def __init__(self, pid, tier, seed, n=None, replay=None):
        self.pid, self.tier, self.seed = pid, tier, seed
        self.rng = random.Random(seed * 1000003 + int(pid[1:]))
        self.n_override = n
        self.violations = []
        self.evaluations = 0
        self.samples = []
        self.corr_stats = dict(cases=0, disagreements=0, model_timeouts=0, impl_panics=0, impl_timeouts=0, by_query={})
        self.oracle_stats = dict(evaluations=0, failures=0, by_oracle={})
        self.distribution = {}
        self._distinct = set()
        self._tag = "%s_%d" % (pid, os.getpid())
        self._batch = 0

    def scale(self, quick, thorough):
        if self.n_override: return self.n_override
        return quick if self.tier == "quick" else thorough

    def distinct_nontrivial(self): return len(self._distinct)

    def dist(self, key, sub):
        d = self.distribution.setdefault(key, {})
        d[sub] = d.get(sub, 0) + 1

    # ---- running cases
    def run(self, queries, model=True, release=True):
        """returns list of (query, dbg, rel, model) canonical results"""
        self._batch += 1
        cases = list(enumerate(queries))
        tag = "%s_b%d" % (self._tag, self._batch)
        d = rta.run_oracle("debug", cases, tag)
        r = rta.run_oracle("release", cases, tag) if release else {}
        m = {}
        if model:
            m, errs = rta.run_model(cases, tag)
        out = []
        for i, q in cases:
            dv, rv, mv = d.get(i), r.get(i), m.get(i)
            out.append((q, dv, rv, mv))
            self.evaluations += 1
            self.dist("query", q[0])
            self.dist("impl_result", dv[0] if dv else "missing")
            if dv and dv[0] not in ("panic", "timeout", "bad") and dv not in (("n", 0), ("l", ())):
                self._distinct.add(rta.stable_hash(q))
            if len(self.samples) < 6 and self.rng.random() < 0.02 + (0.5 if not self.samples else 0):
                self.samples.append(dict(query=sx(q), impl_debug=rta.show(dv), impl_release=rta.show(rv), model=rta.show(mv)))
        for f in os.listdir(rta.WORK):
            if f.startswith(tag):
                try: os.remove(os.path.join(rta.WORK, f))
                except OSError: pass
        return out

    @staticmethod
    def _canon(q, v):
        # aggregated job_cost_iter: itertools' kmerge breaks ties between equal heads by heap
        # position; the property speaks of sums and of the n largest costs only -> compare as multisets
        if v and q[0] == "jc" and v[0] == "l": return ("l", tuple(sorted(v[1])))
        return v

    def correspond(self, rows, relation="two"):
        """rows from run(); records disagreements as violations (kind corr)"""
        st = self.corr_stats
        for q, dv, rv, mv in rows:
            st["cases"] += 1
            bq = st["by_query"].setdefault(q[0], [0, 0]); bq[0] += 1
            if dv and dv[0] == "panic": st["impl_panics"] += 1
            if dv and dv[0] == "timeout": st["impl_timeouts"] += 1
            if mv is None:
                st["model_timeouts"] += 1
                continue
            dv, rv, mv = self._canon(q, dv), self._canon(q, rv), self._canon(q, mv)
            bad = None
            if relation == "two":
                if mv == ("panic",):
                    if not dv or dv[0] not in ("panic", "timeout"): bad = "debug build returns a value where the model panics"
                else:
                    if dv != mv: bad = "debug build differs from the model"
                    elif rv is not None and rv != mv and rv: bad = "release build differs from the model"
            elif relation == "one":     # safety: impl must be at least as pessimistic as the model
                for name, iv in (("debug", dv), ("release", rv)):
                    if iv is None: continue
                    if mv[0] == "ok":
                        if iv[0] == "ok" and iv[1] < mv[1]: bad = "%s build returns a smaller bound than the model proved safe" % name
                        elif iv[0] not in ("ok", "err"): bad = "%s build: %s where the model returns a bound" % (name, iv[0])
                    elif mv[0] == "err":
                        if iv[0] != "err": bad = "%s build returns %s where the model diverges" % (name, rta.show(iv))
                    elif mv[0] == "panic":
                        if name == "debug" and iv[0] not in ("panic", "timeout"): bad = "debug build returns a value where the model panics"
            if bad:
                st["disagreements"] += 1; bq[1] += 1
                self.violations.append(dict(kind="corr", what="correspondence broken on %s: %s" % (q[0], bad), cls="corr:" + q[0],
                                            queries=[q], failing_input=False,
                                            details="impl(debug)=%s impl(release)=%s model=%s" % (rta.show(dv), rta.show(rv), rta.show(mv))))

    def oracle(self, name, ok, what, queries, details="", cls=None, extra=None):
        s = self.oracle_stats
        s["evaluations"] += 1
        b = s["by_oracle"].setdefault(name, [0, 0]); b[0] += 1
        if not ok:
            s["failures"] += 1; b[1] += 1
            self.violations.append(dict(kind="oracle", what=what, cls=cls or ("oracle:" + name), queries=queries,
                                        failing_input=True, details=details, extra=extra or {}))

def matches_known(k, v):
    """a known finding suppresses a violation only if the violation is of the finding's class"""
    cls = k.get("match", {})
    if cls.get("kind") and cls["kind"] != v["kind"]: return False
    if cls.get("cls") and cls["cls"] != v.get("cls"): return False
    pred = KNOWN_PREDICATES.get(k["id"])
    if pred: return pred(v)
    return bool(cls)

KNOWN_PREDICATES = {}

class Prop:
    rule = ""
    trusted_extra = []
    assumptions = []
    proof_status = ""
    def run(self, ctx): raise NotImplementedError

REGISTRY = {}
def register(pid):
    def deco(cls):
        REGISTRY[pid] = cls(); return cls
    return deco

def finalize(ctx):
    """if an oracle produced a concrete failing input, the bare correspondence breaks are redundant"""
    if any(v["kind"] == "oracle" for v in ctx.violations):
        ctx.violations = [v for v in ctx.violations if v["kind"] != "corr"]

# ============================================================================= C08
def lin_scan_search(sbftab, w, off, limit):
    """least r in [0, limit] with sbf(off + r) >= w(max(r, 1)); None if none"""
    for r in range(0, limit + 1):
        if off + r < len(sbftab) and sbftab[off + r] >= w(max(r, 1)): return r
    return None

def wtable_fn(wt):
    l, num, den = wt[1], wt[2], wt[3]
    def w(r):
        if r <= len(l): return l[max(r, 1) - 1]
        return l[-1] + ((r - len(l)) * num) // den
    return w

@register("C08")
class C08(Prop):
    rule = ("random supplies (dedicated/periodic/constrained/default-service_time wrappers/table-defined) x monotone step "
            "workloads (slope steered around the supply rate) x limits incl. fixed point-1/fixed point/+1 x offsets inside the busy window; "
            "non-trivial = distinct query whose implementation result is not 0/empty/panic")
    proof_status = "full (limit = 0 corner recorded as known finding C08-limit0)"
    assumptions = ["workloads are monotone; offsets satisfy off <= service_time(w(1)) (the busy-window hypothesis of the theorems)"]
    def run(self, ctx):
        rng = ctx.rng
        n = ctx.scale(500, 6000)
        qs = []; meta = []
        for _ in range(n):
            sb = gen.gen_sb(rng)
            w = gen.gen_wtable(rng, gen.sb_rate(sb))
            limit = rng.choice([rng.randint(1, 6), rng.randint(1, 60), rng.randint(50, 400)])
            qs.append(["search", sb, limit, w]); meta.append(("search", sb, w, 0, limit))
            qs.append(["st", sb, wtable_fn(w)(1)]); meta.append(("st1", sb, w, 0, limit))
            qs.append(["sbftab", sb, limit + 40]); meta.append(("tab", sb, w, 0, limit))
        rows = ctx.run(qs)
        # second batch: offsets inside the busy window and limits around the fixed point
        qs2 = []; meta2 = []
        for i in range(0, len(rows), 3):
            (q, dv, rv, mv), st1, tab = rows[i], rows[i + 1][1], rows[i + 2][1]
            sb, w, limit = meta[i][1], meta[i][2], meta[i][4]
            if not st1 or st1[0] != "n" or not tab or tab[0] != "l": continue
            offs = sorted(set([0, st1[1], rng.randint(0, st1[1])]))
            for off in offs:
                qs2.append(["searchoff", sb, off, limit, w]); meta2.append((sb, w, off, limit, tab[1]))
            if dv and dv[0] == "ok" and dv[1] >= 1:
                for lim in (dv[1] - 1, dv[1], dv[1] + 1):
                    if lim >= 1:
                        qs2.append(["searchoff", sb, 0, lim, w]); meta2.append((sb, w, 0, lim, tab[1]))
        rows2 = ctx.run(qs2)
        # max_response_time
        qs3 = []
        for _ in range(ctx.scale(150, 1500)):
            rs = [rng.choice([["ok", rng.randint(0, 50)], ["ok", rng.randint(0, 50)], ["ok", rng.randint(0, 50)], ["err", rng.randint(0, 9), rng.randint(1, 99)]])
                  for _ in range(rng.randint(0, 7))]
            qs3.append(["maxrt", rs])
        rows3 = ctx.run(qs3)
        ctx.correspond(rows + rows2 + rows3)
        # oracle: linear scan over the implementation's own provided_service table
        for (q, dv, rv, mv), (sb, w, off, limit, tab) in zip(rows2, meta2):
            wf = wtable_fn(w)
            exp = lin_scan_search(tab, wf, off, limit)
            if off + limit >= len(tab): continue
            for name, iv in (("debug", dv), ("release", rv)):
                if iv is None: continue
                if exp is None: good = iv == ("err", off, limit)
                else: good = iv == ("ok", exp)
                ctx.dist("search_outcome", "ok" if exp is not None else "err")
                ctx.oracle("least_solution_by_linear_scan", good,
                           "search_with_offset (%s build) = %s but the least r <= limit with sbf(off+r) >= w(max(r,1)) is %s" % (name, rta.show(iv), exp),
                           [q, ["sbftab", sb, off + limit + 1]], cls="oracle:least_solution")
        for (q, dv, rv, mv) in rows3:
            rs = q[1]
            errs = [r for r in rs if r[0] == "err"]
            exp = ("err", errs[0][1], errs[0][2]) if errs else ("ok", max([r[1] for r in rs], default=0))
            ctx.oracle("max_response_time", dv == exp and rv == exp,
                       "max_response_time = %s, expected %s (first error, else maximum, else 0)" % (rta.show(dv), rta.show(exp)), [q], cls="oracle:maxrt")
        finalize(ctx)

# ============================================================================= C09
def brute_min_supply(Q, D, P, delta, periods=4):
    """minimum service in any window of length delta over all placements of exactly Q units inside
    [kP, kP+D) in each of `periods` periods (exhaustive over placements is exponential: use the
    structure that only the first and the remaining periods matter: enumerate placements per period
    independently and minimise per window)"""
    import itertools
    slots = list(itertools.combinations(range(D), Q))
    best = None
    # service of a period placement inside a window is independent across periods -> minimise per period
    total_len = periods * P
    for t in range(0, 2 * P):
        if t + delta > total_len: break
        s = 0
        for k in range(periods):
            lo, hi = k * P, k * P + D
            m = None
            for pl in slots:
                c = sum(1 for x in pl if t <= lo + x < t + delta)
                m = c if m is None else min(m, c)
                if m == 0: break
            s += m
        best = s if best is None else min(best, s)
    return best

@register("C09")
class C09(Prop):
    rule = ("(Q, D, P) triples with P <= 20 (quick) / exhaustive P <= 24 (thorough), window lengths and demands up to 6P, "
            "default service_time through wrapper and table-defined supplies; non-trivial = distinct query with non-zero result")
    proof_status = "algebraic half full; semantic half (minimum over budget placements) see coverage.theorems"
    def run(self, ctx):
        rng = ctx.rng
        qs = []; meta = []
        triples = []
        if ctx.tier == "thorough":
            for P in range(1, 25):
                for D in range(1, P + 1):
                    for Q in range(1, D + 1):
                        if rng.random() < 0.35 or P <= 8: triples.append((Q, D, P))
        else:
            for _ in range(ctx.scale(160, 0)):
                P = rng.randint(1, 20); D = rng.choice([P, rng.randint(1, P)]); Q = rng.choice([D, rng.randint(1, D), rng.randint(1, D)])
                triples.append((Q, D, P))
        for (Q, D, P) in triples:
            H = 6 * P
            c = ["constrained_s", Q, D, P]
            qs.append(["sbftab", c, H]); meta.append(("ctab", Q, D, P))
            qs.append(["sbftab", ["default_st", c], H]); meta.append(("dtab", Q, D, P))
            if D == P:
                qs.append(["sbftab", ["periodic_s", Q, P], H]); meta.append(("ptab", Q, D, P))
            if Q == P:
                qs.append(["sbftab", ["dedicated"], H]); meta.append(("dedtab", Q, D, P))
            for d in sorted(set([0, 1, Q, Q + 1, rng.randint(0, 3 * Q + 2), rng.randint(0, 6 * Q)])):
                qs.append(["st", c, d]); meta.append(("cst", Q, D, P, d))
                qs.append(["st", ["default_st", c], d]); meta.append(("dst", Q, D, P, d))
                if D == P:
                    qs.append(["st", ["periodic_s", Q, P], d]); meta.append(("pst", Q, D, P, d))
                    qs.append(["st", ["default_st", ["periodic_s", Q, P]], d]); meta.append(("dpst", Q, D, P, d))
        for _ in range(ctx.scale(60, 600)):
            sb = gen.gen_sb(rng, ["table_s"])
            qs.append(["sbftab", sb, len(sb[1]) + 30]); meta.append(("ttab", sb))
            qs.append(["st", sb, rng.randint(0, 40)]); meta.append(("tst", sb))
        rows = ctx.run(qs)
        ctx.correspond(rows)
        # oracles on the implementation's outputs
        tabs = {}
        for (q, dv, rv, mv), m in zip(rows, meta):
            if m[0] in ("ctab", "ptab", "dedtab", "dtab") and dv and dv[0] == "l": tabs[(m[0],) + tuple(m[1:4])] = dv[1]
        for (q, dv, rv, mv), m in zip(rows, meta):
            if dv is None or dv[0] not in ("l", "n"): continue
            if m[0] in ("ctab", "ttab"):
                t = dv[1]
                shape = t[0] == 0 and all(t[i] <= t[i + 1] <= t[i] + 1 for i in range(len(t) - 1))
                ctx.oracle("sbf_shape", shape, "provided_service is not 0 at 0 / non-decreasing / 1-Lipschitz: %s" % (t,), [q], cls="oracle:sbf_shape")
            if m[0] == "ctab":
                Q, D, P = m[1:4]
                if P <= 6 and (ctx.tier == "thorough" or rng.random() < 0.5):
                    t = dv[1]
                    for delta in range(0, min(len(t), 2 * P + P // 2 + 1)):
                        bm = brute_min_supply(Q, D, P, delta)
                        ctx.oracle("min_over_budget_placements", bm == t[delta],
                                   "provided_service(%d) = %d but the minimum over all budget placements of (Q=%d, D=%d, P=%d) is %d" % (delta, t[delta], Q, D, P, bm),
                                   [q], cls="oracle:sbf_exact")
                if ("ptab", Q, D, P) in tabs:
                    ctx.oracle("constrained_eq_periodic", tabs[("ptab", Q, D, P)] == dv[1], "Constrained(deadline = period) differs from Periodic", [q, ["sbftab", ["periodic_s", Q, P], 6 * P]], cls="oracle:special_cases")
                if ("dedtab", Q, D, P) in tabs:
                    ctx.oracle("full_budget_eq_dedicated", tabs[("dedtab", Q, D, P)] == dv[1], "budget = period differs from a dedicated processor", [q], cls="oracle:special_cases")
            if m[0] in ("cst", "dst", "pst", "dpst"):
                Q, D, P, d = m[1:5]
                t = tabs.get(("ctab", Q, D, P))
                if t is None: continue
                least = next((x for x in range(len(t)) if t[x] >= d), None)
                if least is None: continue
                for name, iv in (("debug", dv), ("release", rv)):
                    ctx.oracle("service_time_is_least", iv == ("n", least),
                               "%s: service_time(%d) = %s but the least t with provided_service(t) >= %d is %d (Q=%d D=%d P=%d)" % (m[0], d, rta.show(iv), d, least, Q, D, P),
                               [q, ["sbftab", ["constrained_s", Q, D, P], 6 * P]], cls="oracle:inverse")
        finalize(ctx)
