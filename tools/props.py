#!/usr/bin/env python3
"""Per-property plans: which cases are generated, which relation ties implementation and model,
and which direct oracle is evaluated on the implementation's outputs."""
import os, sys, random, json, itertools
import rta, gen, families
from rta import sx

TRUSTED_BASE = [
    "Coq 8.16.1 kernel (coqc; vm_compute is used in Example/_refuted proofs and to run the model); no native_compute",
    "no axioms: every theorem of Props/ is 'Closed under the global context' unless listed in coverage.assumptions",
    "the hand-written Gallina model coq/Model/*.v: MODELLED, not verified; tied to /repo only by the correspondence check of this run (differential testing, both build profiles)",
    "tools/ (generators, S-expression printer, translation of cases to Coq terms, comparator) and harness/ (Rust driver around the crate's public API, catch_unwind, watchdog)",
    "Rust semantics not modelled: u64 overflow of + and * (unbounded N in the model), RefCell borrow checks, itertools/Iterator adaptors (modelled as list functions), f64",
    "coq/Spec/*.v: the definitions of schedules, reservations and admissible event sequences mean what the literature means",
]

class Ctx:
    def __init__(self, pid, tier, seed, n=None, replay=None):
        self.pid, self.tier, self.seed = pid, tier, seed
        self.rng = random.Random(seed * 1000003 + int(pid[1:]))
        self.n_override = n
        self.violations = []
        self.evaluations = 0
        self.samples = []
        self.corr_stats = dict(cases=0, disagreements=0, model_timeouts=0, impl_panics=0, impl_timeouts=0, by_query={})
        self.oracle_stats = dict(evaluations=0, failures=0, by_oracle={})
        self.distribution = {}
        self._distinct = set()
        self._tag = "%s_%d" % (pid, os.getpid())
        self._batch = 0

    escalation = 1       # > 1 when a source file inside the property's cone differs from source_pins.json (set by check.py)
    def scale(self, quick, thorough):
        if self.n_override: return self.n_override
        if self.tier != "quick": return thorough
        return min(max(thorough, quick), quick * self.escalation)

    def distinct_nontrivial(self): return len(self._distinct)

    def dist(self, key, sub):
        d = self.distribution.setdefault(key, {})
        d[sub] = d.get(sub, 0) + 1

    # ---- running cases
    def run(self, queries, model=True, release=True):
        """returns list of (query, dbg, rel, model) canonical results"""
        self._batch += 1
        cases = list(enumerate(queries))
        tag = "%s_b%d" % (self._tag, self._batch)
        d = rta.run_oracle("debug", cases, tag)
        r = rta.run_oracle("release", cases, tag) if release else {}
        m = {}
        # arrival bounds outside the Coq model (floating-point Poisson approximation): implementation only
        mcases = [(i, q) for i, q in cases if "apoisson" not in sx(q)]
        if model and mcases:
            # The debug-only brute-force cross-check inside fixed_point::search is modelled (dbg = true) but
            # costs `limit` evaluations of the workload per search; C08_search_profile_independent /
            # search_dbg_irrelevant prove it never fires for monotone workloads, so the dedicated and
            # ECRTS'19 analyses are evaluated with dbg = false except for a 1-in-8 sample.  rr/bw (whose
            # debug check is the brute-force step enumeration) always run with dbg = true.
            HEAVY = ("fp_fp", "fp_np", "fp_lp", "fp_fnp", "edf_fp", "edf_np", "edf_lp", "edf_fnp", "fifo", "es", "timer", "pp", "chain")
            m, errs = rta.run_model(mcases, tag, dbg=lambda i, q: not (q[0] in HEAVY and i % 8 != 0))
        out = []
        for i, q in cases:
            dv, rv, mv = d.get(i), r.get(i), m.get(i)
            out.append((q, dv, rv, mv))
            self.evaluations += 1
            self.dist("query", q[0])
            self.dist("impl_result", dv[0] if dv else "missing")
            if dv and dv[0] not in ("panic", "timeout", "bad") and dv not in (("n", 0), ("l", ())):
                self._distinct.add(rta.stable_hash(q))
            if len(self.samples) < 6 and self.rng.random() < 0.02 + (0.5 if not self.samples else 0):
                self.samples.append(dict(query=sx(q), impl_debug=rta.show(dv), impl_release=rta.show(rv), model=rta.show(mv)))
        for f in os.listdir(rta.WORK):
            if f.startswith(tag):
                try: os.remove(os.path.join(rta.WORK, f))
                except OSError: pass
        return out

    @staticmethod
    def _canon(q, v):
        # aggregated job_cost_iter: itertools' kmerge breaks ties between equal heads by heap
        # position; the property speaks of sums and of the n largest costs only -> compare as multisets
        if v and q[0] == "jc" and v[0] == "l": return ("l", tuple(sorted(v[1])))
        return v

    def correspond(self, rows, relation="two"):
        """rows from run(); records disagreements as violations (kind corr)"""
        st = self.corr_stats
        for q, dv, rv, mv in rows:
            st["cases"] += 1
            bq = st["by_query"].setdefault(q[0], [0, 0]); bq[0] += 1
            if dv and dv[0] == "panic": st["impl_panics"] += 1
            if dv and dv[0] == "timeout": st["impl_timeouts"] += 1
            if mv is None:
                if "apoisson" in sx(q): st["impl_only"] = st.get("impl_only", 0) + 1
                else: st["model_timeouts"] += 1
                continue
            dv, rv, mv = self._canon(q, dv), self._canon(q, rv), self._canon(q, mv)
            bad = None
            if relation == "two":
                if mv == ("panic",):
                    if not dv or dv[0] not in ("panic", "timeout"): bad = "debug build returns a value where the model panics"
                else:
                    if dv != mv: bad = "debug build differs from the model"
                    elif rv is not None and rv != mv and rv: bad = "release build differs from the model"
            elif relation == "one":     # safety: impl must be at least as pessimistic as the model
                for name, iv in (("debug", dv), ("release", rv)):
                    if iv is None: continue
                    if mv[0] == "ok":
                        if iv[0] == "ok" and iv[1] < mv[1]: bad = "%s build returns a smaller bound than the model proved safe" % name
                        elif iv[0] not in ("ok", "err"): bad = "%s build: %s where the model returns a bound" % (name, iv[0])
                    elif mv[0] == "err":
                        if iv[0] != "err": bad = "%s build returns %s where the model diverges" % (name, rta.show(iv))
                    elif mv[0] == "panic":
                        if name == "debug" and iv[0] not in ("panic", "timeout"): bad = "debug build returns a value where the model panics"
            if bad:
                st["disagreements"] += 1; bq[1] += 1
                self.violations.append(dict(kind="corr", what="correspondence broken on %s: %s" % (q[0], bad), cls="corr:" + q[0],
                                            queries=[q], failing_input=False,
                                            details="impl(debug)=%s impl(release)=%s model=%s" % (rta.show(dv), rta.show(rv), rta.show(mv))))

    def oracle(self, name, ok, what, queries, details="", cls=None, extra=None):
        s = self.oracle_stats
        s["evaluations"] += 1
        b = s["by_oracle"].setdefault(name, [0, 0]); b[0] += 1
        if not ok:
            s["failures"] += 1; b[1] += 1
            self.violations.append(dict(kind="oracle", what=what, cls=cls or ("oracle:" + name), queries=queries,
                                        failing_input=True, details=details, extra=extra or {}))

# ----------------------------------------------------------------------------- shrinking of correspondence disagreements
def _candidates(q):
    """structurally smaller variants of a query: drop one element of a list of compound items, halve / decrement a number"""
    import copy
    out = []
    def walk(node, path):
        if isinstance(node, list):
            if len(node) >= 2 and all(isinstance(x, list) for x in node):
                for i in range(len(node)): out.append((path, "drop", i))
            for i, x in enumerate(node): walk(x, path + [i])
        elif isinstance(node, int) and node > 1:
            out.append((path, "half", None)); out.append((path, "dec", None))
    walk(q, [])
    res = []
    for path, op, arg in out:
        c = copy.deepcopy(q); node = c
        for i in path[:-1]: node = node[i]
        if op == "drop":
            tgt = node[path[-1]] if path else c
            del tgt[arg]
        else:
            v = node[path[-1]]
            node[path[-1]] = v // 2 if op == "half" else v - 1
        res.append(c)
    return res

def shrink_corr(ctx, q, still_bad, budget=4):
    """greedy: keep the first smaller variant on which implementation and model still disagree"""
    cur = q
    for _ in range(budget):
        cands = _candidates(cur)[:60]
        if not cands: break
        try:
            rows = ctx.run(cands)
        except Exception:
            break
        nxt = None
        for (c, dv, rv, mv) in rows:
            if mv is not None and dv is not None and still_bad(c, dv, rv, mv): nxt = c; break
        if nxt is None: break
        cur = nxt
    return cur

def matches_known(k, v):
    """a known finding suppresses a violation only if the violation is of the finding's class"""
    cls = k.get("match", {})
    if cls.get("kind") and cls["kind"] != v["kind"]: return False
    if cls.get("cls") and cls["cls"] != v.get("cls"): return False
    pred = KNOWN_PREDICATES.get(k["id"])
    if pred: return pred(v)
    return bool(cls)

KNOWN_PREDICATES = {}

class Prop:
    rule = ""
    trusted_extra = []
    assumptions = []
    proof_status = ""
    def run(self, ctx): raise NotImplementedError

REGISTRY = {}
def register(pid):
    def deco(cls):
        REGISTRY[pid] = cls(); return cls
    return deco

def finalize(ctx):
    """if an oracle produced a concrete failing input (that is not a listed known finding), the bare
    correspondence breaks are redundant: the failing input is the replay; otherwise the first correspondence
    disagreement of every class is shrunk to a smaller disagreeing query before it is reported"""
    _finalize(ctx)
    seen = set()
    for v in ctx.violations:
        if v["kind"] != "corr" or v.get("cls") in seen or not v.get("queries"): continue
        seen.add(v.get("cls"))
        q0 = v["queries"][0]
        try:
            bad = lambda c, dv, rv, mv: (Ctx._canon(c, dv) != Ctx._canon(c, mv)) and not (mv == ("panic",) and dv and dv[0] in ("panic", "timeout"))
            small = shrink_corr(ctx, q0, bad)
            if small != q0:
                v["queries"] = [small, q0]; v["details"] += " | shrunk from the second query to the first"
        except Exception as e:
            v["details"] += " | shrinking failed: %r" % (e,)

def _finalize(ctx):
    try:
        known = [k for k in json.load(open(os.path.join(rta.VERIF, "known_findings.json"))).get("findings", [])
                 if k.get("property") == ctx.pid and k.get("status") == "known"]
    except Exception:
        known = []
    real = [v for v in ctx.violations if v["kind"] == "oracle" and not any(matches_known(k, v) for k in known)]
    if real:
        ctx.violations = [v for v in ctx.violations if v["kind"] != "corr"]

# ============================================================================= C08
def lin_scan_search(sbftab, w, off, limit):
    """least r in [0, limit] with sbf(off + r) >= w(max(r, 1)); None if none"""
    for r in range(0, limit + 1):
        if off + r < len(sbftab) and sbftab[off + r] >= w(max(r, 1)): return r
    return None

def wtable_fn(wt):
    l, num, den = wt[1], wt[2], wt[3]
    def w(r):
        if r <= len(l): return l[max(r, 1) - 1]
        return l[-1] + ((r - len(l)) * num) // den
    return w

@register("C08")
class C08(Prop):
    rule = ("random supplies (dedicated/periodic/constrained/default-service_time wrappers/table-defined) x monotone step "
            "workloads (slope steered around the supply rate) x limits incl. fixed point-1/fixed point/+1 x offsets inside the busy window; "
            "non-trivial = distinct query whose implementation result is not 0/empty/panic")
    proof_status = "full (limit = 0 corner recorded as known finding C08-limit0)"
    assumptions = ["workloads are monotone; offsets satisfy off <= service_time(w(1)) (the busy-window hypothesis of the theorems)"]
    def run(self, ctx):
        rng = ctx.rng
        n = ctx.scale(500, 6000)
        qs = []; meta = []
        for _ in range(n):
            sb = gen.gen_sb(rng)
            w = gen.gen_wtable(rng, gen.sb_rate(sb))
            limit = rng.choice([rng.randint(1, 6), rng.randint(1, 60), rng.randint(50, 400)])
            qs.append(["search", sb, limit, w]); meta.append(("search", sb, w, 0, limit))
            qs.append(["st", sb, wtable_fn(w)(1)]); meta.append(("st1", sb, w, 0, limit))
            qs.append(["sbftab", sb, limit + 40]); meta.append(("tab", sb, w, 0, limit))
        rows = ctx.run(qs)
        # second batch: offsets inside the busy window and limits around the fixed point
        qs2 = []; meta2 = []
        for i in range(0, len(rows), 3):
            (q, dv, rv, mv), st1, tab = rows[i], rows[i + 1][1], rows[i + 2][1]
            sb, w, limit = meta[i][1], meta[i][2], meta[i][4]
            if not st1 or st1[0] != "n" or not tab or tab[0] != "l": continue
            offs = sorted(set([0, st1[1], rng.randint(0, st1[1])]))
            for off in offs:
                qs2.append(["searchoff", sb, off, limit, w]); meta2.append((sb, w, off, limit, tab[1]))
            if dv and dv[0] == "ok" and dv[1] >= 1:
                for lim in (dv[1] - 1, dv[1], dv[1] + 1):
                    if lim >= 1:
                        qs2.append(["searchoff", sb, 0, lim, w]); meta2.append((sb, w, 0, lim, tab[1]))
        # the known corner limit = 0 (witness of known finding C08-limit0) and its neighbours
        for wl in ([0], [0, 1], [1], [2, 3]):
            w0 = ["wtable", wl, 0, 1]
            qs2.append(["searchoff", ["dedicated"], 0, 0, w0]); meta2.append((["dedicated"], w0, 0, 0, tuple(range(0, 8))))
        rows2 = ctx.run(qs2)
        # max_response_time
        qs3 = []
        for _ in range(ctx.scale(150, 1500)):
            rs = [rng.choice([["ok", rng.randint(0, 50)], ["ok", rng.randint(0, 50)], ["ok", rng.randint(0, 50)], ["err", rng.randint(0, 9), rng.randint(1, 99)]])
                  for _ in range(rng.randint(0, 7))]
            qs3.append(["maxrt", rs])
        rows3 = ctx.run(qs3)
        ctx.correspond(rows + rows2 + rows3)
        # oracle: linear scan over the implementation's own provided_service table
        for (q, dv, rv, mv), (sb, w, off, limit, tab) in zip(rows2, meta2):
            wf = wtable_fn(w)
            exp = lin_scan_search(tab, wf, off, limit)
            if off + limit >= len(tab): continue
            for name, iv in (("debug", dv), ("release", rv)):
                if iv is None: continue
                if exp is None: good = iv == ("err", off, limit)
                else: good = iv == ("ok", exp)
                ctx.dist("search_outcome", "ok" if exp is not None else "err")
                ctx.oracle("least_solution_by_linear_scan", good,
                           "search_with_offset (%s build) = %s but the least r <= limit with sbf(off+r) >= w(max(r,1)) is %s" % (name, rta.show(iv), exp),
                           [q, ["sbftab", sb, off + limit + 1]], cls="oracle:least_solution" + ("_limit0" if limit == 0 else ""))
        for (q, dv, rv, mv) in rows3:
            rs = q[1]
            errs = [r for r in rs if r[0] == "err"]
            exp = ("err", errs[0][1], errs[0][2]) if errs else ("ok", max([r[1] for r in rs], default=0))
            ctx.oracle("max_response_time", dv == exp and rv == exp,
                       "max_response_time = %s, expected %s (first error, else maximum, else 0)" % (rta.show(dv), rta.show(exp)), [q], cls="oracle:maxrt")
        finalize(ctx)

# ============================================================================= C09
def brute_min_supply(Q, D, P, delta, periods=4):
    """minimum service in any window of length delta over all placements of exactly Q units inside
    [kP, kP+D) in each of `periods` periods (exhaustive over placements is exponential: use the
    structure that only the first and the remaining periods matter: enumerate placements per period
    independently and minimise per window)"""
    import itertools
    slots = list(itertools.combinations(range(D), Q))
    best = None
    # service of a period placement inside a window is independent across periods -> minimise per period
    total_len = periods * P
    for t in range(0, 2 * P):
        if t + delta > total_len: break
        s = 0
        for k in range(periods):
            lo, hi = k * P, k * P + D
            m = None
            for pl in slots:
                c = sum(1 for x in pl if t <= lo + x < t + delta)
                m = c if m is None else min(m, c)
                if m == 0: break
            s += m
        best = s if best is None else min(best, s)
    return best

@register("C09")
class C09(Prop):
    rule = ("(Q, D, P) triples with P <= 20 (quick) / exhaustive P <= 24 (thorough), window lengths and demands up to 6P, "
            "default service_time through wrapper and table-defined supplies; non-trivial = distinct query with non-zero result")
    proof_status = "algebraic half full; semantic half (minimum over budget placements) see coverage.theorems"
    def run(self, ctx):
        rng = ctx.rng
        qs = []; meta = []
        triples = []
        if ctx.tier == "thorough":
            for P in range(1, 25):
                for D in range(1, P + 1):
                    for Q in range(1, D + 1):
                        if rng.random() < 0.35 or P <= 8: triples.append((Q, D, P))
        else:
            for _ in range(ctx.scale(160, 0)):
                P = rng.randint(1, 20); D = rng.choice([P, rng.randint(1, P)]); Q = rng.choice([D, rng.randint(1, D), rng.randint(1, D)])
                triples.append((Q, D, P))
        for (Q, D, P) in triples:
            H = 6 * P
            c = ["constrained_s", Q, D, P]
            qs.append(["sbftab", c, H]); meta.append(("ctab", Q, D, P))
            qs.append(["sbftab", ["default_st", c], H]); meta.append(("dtab", Q, D, P))
            if D == P:
                qs.append(["sbftab", ["periodic_s", Q, P], H]); meta.append(("ptab", Q, D, P))
            if Q == P:
                qs.append(["sbftab", ["dedicated"], H]); meta.append(("dedtab", Q, D, P))
            for d in sorted(set([0, 1, Q, Q + 1, rng.randint(0, 3 * Q + 2), rng.randint(0, 6 * Q)])):
                qs.append(["st", c, d]); meta.append(("cst", Q, D, P, d))
                qs.append(["st", ["default_st", c], d]); meta.append(("dst", Q, D, P, d))
                if D == P:
                    qs.append(["st", ["periodic_s", Q, P], d]); meta.append(("pst", Q, D, P, d))
                    qs.append(["st", ["default_st", ["periodic_s", Q, P]], d]); meta.append(("dpst", Q, D, P, d))
                if Q == P:
                    qs.append(["st", ["dedicated"], d]); meta.append(("dedst", Q, D, P, d))
                    qs.append(["st", ["default_st", ["dedicated"]], d]); meta.append(("ddedst", Q, D, P, d))
        # a dedicated processor on its own (zero demand included) and reservations with a long blackout relative to the demand
        # (the trait's default inverse needs thousands of probes there)
        for d in [0, 1, 2, rng.randint(3, 50), rng.randint(50, 5000)]:
            qs.append(["st", ["dedicated"], d]); meta.append(("ded_id", d))
            qs.append(["st", ["default_st", ["dedicated"]], d]); meta.append(("ded_id", d))
        for _ in range(ctx.scale(10, 60)):
            P = rng.randint(600, 2500); Q = rng.randint(1, 3); D = rng.choice([P, rng.randint(Q, 40)])
            c = ["constrained_s", Q, D, P] if D != P or rng.random() < 0.5 else ["periodic_s", Q, P]
            for d in sorted(set([1, Q, Q + 1, rng.randint(1, 3 * Q + 2)])):
                qs.append(["st", c, d]); meta.append(("long", len(qs)))
                qs.append(["st", ["default_st", c], d]); meta.append(("long_default", len(qs) - 2))
        for _ in range(ctx.scale(60, 600)):
            sb = gen.gen_sb(rng, ["table_s"])
            qs.append(["sbftab", sb, len(sb[1]) + 30]); meta.append(("ttab", sb))
            qs.append(["st", sb, rng.randint(0, 40)]); meta.append(("tst", sb))
        rows = ctx.run(qs)
        ctx.correspond(rows)
        # oracles on the implementation's outputs
        tabs = {}
        for (q, dv, rv, mv), m in zip(rows, meta):
            if m[0] in ("ctab", "ptab", "dedtab", "dtab") and dv and dv[0] == "l": tabs[(m[0],) + tuple(m[1:4])] = dv[1]
        for (q, dv, rv, mv), m in zip(rows, meta):
            if dv is None or dv[0] not in ("l", "n"): continue
            if m[0] in ("ctab", "ttab"):
                t = dv[1]
                shape = t[0] == 0 and all(t[i] <= t[i + 1] <= t[i] + 1 for i in range(len(t) - 1))
                ctx.oracle("sbf_shape", shape, "provided_service is not 0 at 0 / non-decreasing / 1-Lipschitz: %s" % (t,), [q], cls="oracle:sbf_shape")
            if m[0] == "ctab":
                Q, D, P = m[1:4]
                if P <= 6 and (ctx.tier == "thorough" or rng.random() < 0.5):
                    t = dv[1]
                    for delta in range(0, min(len(t), 2 * P + P // 2 + 1)):
                        bm = brute_min_supply(Q, D, P, delta)
                        ctx.oracle("min_over_budget_placements", bm == t[delta],
                                   "provided_service(%d) = %d but the minimum over all budget placements of (Q=%d, D=%d, P=%d) is %d" % (delta, t[delta], Q, D, P, bm),
                                   [q], cls="oracle:sbf_exact")
                if ("ptab", Q, D, P) in tabs:
                    ctx.oracle("constrained_eq_periodic", tabs[("ptab", Q, D, P)] == dv[1], "Constrained(deadline = period) differs from Periodic", [q, ["sbftab", ["periodic_s", Q, P], 6 * P]], cls="oracle:special_cases")
                if ("dedtab", Q, D, P) in tabs:
                    ctx.oracle("full_budget_eq_dedicated", tabs[("dedtab", Q, D, P)] == dv[1], "budget = period differs from a dedicated processor", [q], cls="oracle:special_cases")
            if m[0] == "ded_id":
                for name, iv in (("debug", dv), ("release", rv)):
                    ctx.oracle("dedicated_service_time_is_identity", iv == ("n", m[1]), "%s: service_time(%d) = %s on a dedicated processor (%s build)" % (sx(q), m[1], rta.show(iv), name), [q], cls="oracle:inverse:dedicated")
            if m[0] == "long_default":
                closed = rows[m[1]][1]
                ctx.oracle("default_inverse_equals_closed_form", dv == closed, "default service_time %s differs from the closed form %s on %s" % (rta.show(dv), rta.show(closed), sx(q)), [q, rows[m[1]][0]], cls="oracle:inverse:long_blackout")
            if m[0] in ("cst", "dst", "pst", "dpst", "dedst", "ddedst"):
                Q, D, P, d = m[1:5]
                t = tabs.get(("ctab", Q, D, P))
                if t is None: continue
                least = next((x for x in range(len(t)) if t[x] >= d), None)
                if least is None: continue
                for name, iv in (("debug", dv), ("release", rv)):
                    ctx.oracle("service_time_is_least", iv == ("n", least),
                               "%s: service_time(%d) = %s but the least t with provided_service(t) >= %d is %d (Q=%d D=%d P=%d)" % (m[0], d, rta.show(iv), d, least, Q, D, P),
                               [q, ["sbftab", ["constrained_s", Q, D, P], 6 * P]], cls="oracle:inverse")
        finalize(ctx)

# ============================================================================= helpers: admissible event sequences
def events_for(ab, rng, horizon, adversarial=True):
    """an event sequence (sorted list of times) admissible for the arrival-bound expression"""
    k = ab[0]
    if k == "periodic":
        T = ab[1]; t0 = 0 if adversarial else rng.randint(0, T)
        return list(range(t0, horizon, T))
    if k == "sporadic":
        T, J = ab[1], ab[2]
        arr = []; t = 0
        while t < horizon + J:
            arr.append(t); t += T if adversarial else T + rng.choice([0, 0, rng.randint(0, T)])
        # adversarial: the first arrivals are delayed so that they are all released together at time J
        if adversarial: jit = [max(0, J - a) for a in arr]
        else: jit = [rng.randint(0, J) for _ in arr]
        return sorted(a + j for a, j in zip(arr, jit))
    if k == "never": return []
    if k == "prefix" and ab[1][0] == "prefix_from":
        # a prefix recorded from a sub-additive source must cover every sequence of that source (C12: dominates everywhere)
        return events_for(ab[1][1], rng, horizon, adversarial)
    if k in ("curve", "extrap") and ab[1][0] == "from_trace":
        return [t - ab[1][1][0] for t in ab[1][1] if t - ab[1][1][0] < horizon]      # the recorded trace itself (shifted to start at 0)
    if k in ("curve", "extrap"):
        d = ab[1][1]
        if ab[1][0] == "fromiter":          # Curve::from_iter takes the running maximum of the given distances
            d = [max(d[:i + 1]) for i in range(len(d))]
        es = [0]
        while es[-1] < horizon and len(es) < 4000:
            n = len(es)
            nxt = max((es[n - i - 1] + d[i]) for i in range(min(len(d), n)))
            if not adversarial: nxt += rng.choice([0, 0, 1, rng.randint(0, 5)])
            es.append(nxt)
            if len(es) > 50 and es[-1] == es[-50]: break
        return es
    if k in ("propagated", "jitter"):
        J = ab[1]
        inner = events_for(ab[2], rng, horizon + J, adversarial)
        if adversarial: jit = [max(0, min(J, (inner[0] + J) - e)) for e in inner]
        else: jit = [rng.randint(0, J) for _ in inner]
        return sorted(e + j for e, j in zip(inner, jit))
    if k == "sum":
        out = []
        for x in ab[1]: out += events_for(x, rng, horizon, adversarial)
        return sorted(out)
    if k == "sum2":
        return sorted(events_for(ab[1], rng, horizon, adversarial) + events_for(ab[2], rng, horizon, adversarial))
    raise ValueError("no admissible sequences defined for " + k)

def max_window_counts(es, H):
    """m[d] = max number of events in any window [t, t+d), d = 0..H (windows may start anywhere)"""
    es = sorted(es); m = [0] * (H + 1)
    n = len(es)
    for d in range(1, H + 1):
        best = 0; j = 0
        for i in range(n):
            while j < n and es[j] < es[i] + d: j += 1
            if j - i > best: best = j - i
        m[d] = best
    return m

def ab_leafs(ab, kinds):
    return gen.ab_has(ab, lambda a: a[0] in kinds)

# ============================================================================= C10
@register("C10")
class C10(Prop):
    rule = ("arrival bounds of depth <= 2 over periodic/sporadic(jitter buckets 0,<T,>=T)/never/delta-min curves/extrapolating curves/"
            "propagated/clone_with_jitter/sums; queried as tables up to a horizon; oracle = window counts of generated admissible "
            "event sequences (adversarial 'as early as possible, first event maximally delayed' and random); non-trivial = distinct "
            "query with a non-zero table")
    proof_status = "see coverage.theorems"
    def run(self, ctx):
        rng = ctx.rng
        kinds = ["periodic", "sporadic", "never", "curve", "extrap", "propagated", "jitter", "sum", "sum2"]
        qs = []; meta = []
        for _ in range(ctx.scale(260, 3000)):
            ab = gen.gen_ab(rng, rng.choice([0, 1, 1, 2]), kinds, True, True)
            H = rng.choice([rng.randint(1, 40), rng.randint(20, 120)])
            qs.append(["natab", ab, H]); meta.append(("tab", ab, H))
            qs.append(["na", ab, rng.choice([rng.randint(0, 400), rng.randint(100, 3000)]) if not ab_leafs(ab, ("extrap",)) else rng.randint(0, 300)]); meta.append(("na", ab, H))
            a, b = rng.randint(0, 20), rng.randint(0, 20)
            qs.append(["natab", ["jitter", b, ["jitter", a, ab]], H]); meta.append(("jj", ab, H, a, b))
            qs.append(["natab", ["jitter", a + b, ab], H]); meta.append(("j", ab, H, a, b))
        # arrival models obtained through the other public constructors: Curve::from_iter (running maximum of arbitrary distances)
        # and ArrivalCurvePrefix::from_arrival_bound_until of a periodic/sporadic source (horizons on and off the source's steps)
        for _ in range(ctx.scale(80, 800)):
            r_ = rng.random()
            if r_ < 0.3:
                # a curve inferred from a trace whose tightest clustering comes late: the trace must be admissible for its own curve
                for _t in range(30):
                    tr = families.gen_trace(rng); K = rng.randint(2, 4)
                    tr = [t + 60 * i for i, t in enumerate(tr[:3])] + [tr[2] + 180 + x for x in tr[3:]] if len(tr) > 4 else tr
                    tr = sorted(tr); d_ = gen.dmin_of_trace(tr, K)
                    if d_ and d_[-1] > 0: break
                ab = ["curve", ["from_trace", tr, K]]
            elif r_ < 0.6:
                v = [rng.choice([0, 0, rng.randint(0, 12)]) for _ in range(rng.randint(1, 6))]
                if max(v) == 0: v[-1] = rng.randint(1, 9)
                v[-1] = max(v)
                ab = ["curve", ["fromiter", v]] if rng.random() < 0.7 else ["extrap", ["fromiter", v]]
            else:
                src = gen.gen_sporadic(rng) if rng.random() < 0.6 else ["periodic", rng.randint(1, 30)]
                T = src[1]; J = src[2] if src[0] == "sporadic" else 0
                on_step = [k * T - J + 1 for k in range(1, 8) if k * T - J + 1 >= 1]
                hz = rng.choice(on_step) if on_step and rng.random() < 0.6 else rng.randint(1, 60)
                ab = ["prefix", ["prefix_from", src, hz]]
            H = rng.choice([rng.randint(1, 40), rng.randint(20, 120)])
            qs.append(["natab", ab, H]); meta.append(("tab", ab, H))
            qs.append(["na", ab, rng.randint(0, 300)]); meta.append(("na", ab, H))
            a, b = rng.randint(0, 20), rng.randint(0, 20)
            qs.append(["natab", ["jitter", b, ["jitter", a, ab]], H]); meta.append(("jj", ab, H, a, b))
            qs.append(["natab", ["jitter", a + b, ab], H]); meta.append(("j", ab, H, a, b))
        rows = ctx.run(qs)
        ctx.correspond(rows)
        for i in range(0, len(rows), 4):
            (q, dv, rv, mv) = rows[i]; ab, H = meta[i][1], meta[i][2]
            if not dv or dv[0] != "l": continue
            tab = dv[1]
            gen.ab_kind_hist(ab, ctx.distribution.setdefault("ab_kinds", {}))
            ctx.oracle("zero_and_monotone", tab[0] == 0 and all(tab[j] <= tab[j + 1] for j in range(len(tab) - 1)),
                       "number_arrivals is not 0 at 0 / not non-decreasing: %s" % (tab,), [q], cls="oracle:na_shape")
            for adv in (True, False):
                es = events_for(ab, rng, 3 * H + 10, adv)
                m = max_window_counts(es, H)
                bad = [d for d in range(H + 1) if m[d] > tab[d]]
                ctx.oracle("admissible_sequences_are_covered", not bad,
                           "an admissible event sequence has %d events in a window of length %d but number_arrivals says %d; events=%s"
                           % ((m[bad[0]], bad[0], tab[bad[0]], es[:40]) if bad else (0, 0, 0, [])), [q], cls="oracle:undercount",
                           extra=dict(events=es[:200]))
                if adv and ab[0] in ("periodic", "sporadic"):
                    ctx.oracle("sporadic_bound_attained", m == list(tab), "the periodic/sporadic bound is not attained by the maximal-rate sequence: max counts %s vs bound %s" % (m, tab), [q], cls="oracle:not_tight")
            if ab[0] in ("periodic", "sporadic"):
                sub = all(tab[x + y] <= tab[x] + tab[y] for x in range(len(tab)) for y in range(len(tab) - x))
                ctx.oracle("subadditive", sub, "periodic/sporadic bound is not sub-additive: %s" % (tab,), [q], cls="oracle:subadditive")
            jj, j = rows[i + 2][1], rows[i + 3][1]
            if j and j[0] == "l":
                jab = ["jitter", meta[i + 3][3] + meta[i + 3][4], ab]
                es = events_for(jab, rng, 3 * H + 10, True)
                m = max_window_counts(es, H)
                bad = [d for d in range(H + 1) if m[d] > j[1][d]]
                ctx.oracle("delayed_sequences_are_covered", not bad,
                           "a sequence delayed by at most the added jitter has %s events in a window of length %s but the jittered clone says %s" %
                           ([m[d] for d in bad[:1]], bad[:1], [j[1][d] for d in bad[:1]]), [rows[i + 3][0]], cls="oracle:undercount_jittered", extra=dict(events=es[:100]))
            ctx.oracle("jitter_composes", jj == j, "adding jitter %d then %d differs from adding %d: %s vs %s" % (meta[i + 2][3], meta[i + 2][4], meta[i + 2][3] + meta[i + 2][4], rta.show(jj), rta.show(j)),
                       [rows[i + 2][0], rows[i + 3][0]], cls="oracle:jitter_compose")
        finalize(ctx)

# ============================================================================= C11
def plateau_curve(ab): return gen.ab_plateau(ab)
def has_prefix(ab): return ab_leafs(ab, ("prefix",))
def rb_abs(rb):
    if rb[0] == "rbf": return [rb[1]]
    if rb[0] == "boxed": return rb_abs(rb[1])
    out = []
    for x in rb[1]: out += rb_abs(x)
    return out

@register("C11")
class C11(Prop):
    rule = ("steps_iter of arrival bounds (all implementors incl. plateau-ended curves and ArrivalCurvePrefix) and request bounds "
            "(positive costs) cut at a horizon, against the brute-force comparison of consecutive values of the implementation's own "
            "bound; non-trivial = distinct query with a non-empty step list")
    proof_status = "see coverage.theorems"
    def run(self, ctx):
        rng = ctx.rng
        qs = []; meta = []
        for _ in range(ctx.scale(300, 4000)):
            ab = gen.gen_ab(rng, rng.choice([0, 1, 1, 2]), families.AB_ALL, True, True)
            if rng.random() < 0.06:
                d = gen.gen_dmin(rng, True, True); ab = ["curve", ["dmin", d + [d[-1]]]]
            H = rng.choice([rng.randint(0, 30), rng.randint(20, 150)])
            qs += [["steps", ab, H, 100000], ["natab", ab, H], ["bfsteps", ab, H]]
            meta += [("ab", ab, H)] * 3
        # bounds that admit no arrival in short intervals (number_arrivals(1) = 0): low-rate approximated Poisson,
        # plain, propagated and summed (implementation-only: outside the Coq model)
        for _ in range(ctx.scale(40, 400)):
            ap = ["apoisson", rng.randint(1, 30), rng.choice([1000, 10000, 100000]), 1, rng.choice([100, 1000])]
            r = rng.random()
            ab = ap if r < 0.25 else ["propagated", rng.randint(0, 80), ap] if r < 0.6 else ["jitter", rng.randint(0, 80), ap] if r < 0.8 else ["sum", [ap, gen.gen_sporadic(rng)]]
            H = rng.randint(20, 400)
            qs += [["steps", ab, H, 100000], ["natab", ab, H], ["bfsteps", ab, H]]
            meta += [("ab", ab, H)] * 3
        for _ in range(ctx.scale(120, 1500)):
            rb = gen.gen_rb(rng, rng.choice([0, 1, 2]), False, families.AB_ANALYSIS + ["never"], True)
            H = rng.randint(0, 120)
            qs += [["rbsteps", rb, H, 100000], ["sntab", rb, H], ["stepoff", rb, H, 100000]]
            meta += [("rb", rb, H)] * 3
        rows = ctx.run(qs)
        ctx.correspond(rows)
        for i in range(0, len(rows), 3):
            kind, obj, H = meta[i]
            st, tab = rows[i][1], rows[i + 1][1]
            if not st or not tab or st[0] != "l" or tab[0] != "l": continue
            steps, tab = list(st[1]), tab[1]
            expect = [d for d in range(1, H + 1) if tab[d - 1] < tab[d]]
            abs_ = [obj] if kind == "ab" else rb_abs(obj)
            cls = "oracle:steps"
            if any(plateau_curve(a) for a in abs_): cls = "oracle:steps:plateau_curve"
            if any(has_prefix(a) for a in abs_): cls = "oracle:steps:prefix"
            ctx.dist("steps_class", cls)
            ctx.oracle("steps_are_exactly_the_increase_points", steps == expect,
                       "steps_iter yields %s but the bound increases exactly at %s" % (steps[:40], expect[:40]), [rows[i][0], rows[i + 1][0]], cls=cls)
            if kind == "ab":
                bf = rows[i + 2][1]
                ctx.oracle("brute_force_steps_iter", bf == ("l", tuple(expect)), "brute_force_steps_iter yields %s, expected %s" % (rta.show(bf), expect[:40]), [rows[i + 2][0]], cls="oracle:bfsteps")
            else:
                so = rows[i + 2][1]
                if so and so[0] == "l":
                    exp_off = [d - 1 for d in expect if d - 1 < H]
                    ctx.oracle("step_offsets", list(so[1]) == exp_off, "step_offsets yields %s, expected %s" % (list(so[1])[:40], exp_off[:40]), [rows[i + 2][0]], cls=cls.replace("steps", "stepoff", 1))
        finalize(ctx)

def kf_cls_prefix(prefix):
    return lambda v: v["kind"] == "oracle" and str(v.get("cls", "")).startswith(prefix)
KNOWN_PREDICATES["C11-plateau-curve"] = lambda v: v.get("cls") in ("oracle:steps:plateau_curve", "oracle:stepoff:plateau_curve")
KNOWN_PREDICATES["C11-prefix-zero-step"] = lambda v: v.get("cls") in ("oracle:steps:prefix", "oracle:stepoff:prefix")

# ============================================================================= C16
@register("C16")
class C16(Prop):
    rule = ("request bounds over all arrival kinds x {scalar, multiframe, curve, extrapolating curve} costs, nested/boxed/sliced "
            "aggregates of depth <= 2; oracle recomputes every method from the components' own outputs; non-trivial = distinct "
            "query with non-zero result")
    proof_status = "see coverage.theorems"
    def run(self, ctx):
        rng = ctx.rng
        qs = []; meta = []
        for _ in range(ctx.scale(150, 2000)):
            rb = gen.gen_rb(rng, rng.choice([0, 1, 2]), False, families.AB_ANALYSIS + ["never"], True, positive=False)
            if rb[0] == "rbf" and rng.random() < 0.3: rb = ["default_rb", rb]     # user-defined bound relying on the trait's provided methods
            d = rng.choice([rng.randint(0, 20), rng.randint(10, 120)])
            n = rng.randint(0, 8)
            base = len(qs)
            qs += [["sn", rb, d], ["jc", rb, d], ["lw", rb, d], ["snn", rb, d, n], ["snn", rb, d, n + 1], ["snn", rb, d, 10000]]
            comps = rb[1] if rb[0] in ("agg", "slice") else []
            if comps:
                qs.append(["snc", rb, d, n])
                for c in comps:
                    qs += [["sn", c, d], ["jc", c, d], ["lw", c, d], ["snn", c, d, n]]
            else:
                r = rb[1] if rb[0] in ("boxed", "default_rb") else rb
                qs += [["na", r[1], d], ["cost", r[2], 0], ["jobcosts", r[2], 0]]
            meta.append((base, rb, d, n, len(comps)))
        # resolve the single-RBF cases in a second pass (cost of na jobs)
        rows = ctx.run(qs)
        qs2 = []; back = []
        for (base, rb, d, n, nc) in meta:
            if nc == 0:
                r = rb[1] if rb[0] in ("boxed", "default_rb") else rb
                nav = rows[base + 6][1]
                if nav and nav[0] == "n":
                    qs2 += [["cost", r[2], nav[1]], ["jobcosts", r[2], nav[1]], ["least", r[2], nav[1]]]; back.append(base)
        rows2 = ctx.run(qs2)
        ctx.correspond(rows + rows2)
        single = {b: rows2[3 * i: 3 * i + 3] for i, b in enumerate(back)}
        for (base, rb, d, n, nc) in meta:
            val = lambda k: rows[base + k][1]
            if any(val(k) is None or val(k)[0] not in ("n", "l") for k in range(6)): continue
            snv, jcv, lwv, snn_n, snn_n1, snn_all = val(0)[1], list(val(1)[1]), val(2)[1], val(3)[1], val(4)[1], val(5)[1]
            Q = [rows[base][0], rows[base + 1][0]]
            ctx.oracle("job_costs_sum_to_service_needed", sum(jcv) == snv, "job_cost_iter sums to %d but service_needed is %d" % (sum(jcv), snv), Q, cls="oracle:jc_sum")
            ctx.oracle("least_wcet_below_every_job", (not jcv) or lwv <= min(jcv), "least_wcet_in_interval %d exceeds a job cost of %s" % (lwv, jcv[:30]), [rows[base + 2][0]] + Q, cls="oracle:lw")
            top = sorted(jcv, reverse=True)
            ctx.oracle("n_largest_jobs", snn_n == sum(top[:n]) and snn_n1 == sum(top[:n + 1]) and snn_all == snv and snn_n <= snn_n1 <= snv,
                       "service_needed_by_n_jobs(%d)=%d, (%d)=%d, (all)=%d vs job costs %s" % (n, snn_n, n + 1, snn_n1, snn_all, top[:20]), [rows[base + 3][0], rows[base + 1][0]], cls="oracle:snn")
            if nc:
                o = base + 7
                comp = [(rows[o + 4 * j][1], rows[o + 4 * j + 1][1], rows[o + 4 * j + 2][1], rows[o + 4 * j + 3][1]) for j in range(nc)]
                if all(all(x and x[0] in ("n", "l") for x in c) for c in comp) and val(6) and val(6)[0] == "n":
                    ctx.oracle("aggregate_is_sum_of_components", snv == sum(c[0][1] for c in comp), "Aggregate service_needed %d != sum of components %s" % (snv, [c[0][1] for c in comp]), Q, cls="oracle:agg_sum")
                    alljobs = sorted(x for c in comp for x in c[1][1])
                    ctx.oracle("aggregate_jobs_are_component_jobs", sorted(jcv) == alljobs, "Aggregate job costs %s != union of component job costs %s" % (sorted(jcv)[:30], alljobs[:30]), Q, cls="oracle:agg_jc")
                    ctx.oracle("per_component_restriction", val(6)[1] == sum(c[3][1] for c in comp), "per-component restricted demand %d != sum of components' %s" % (val(6)[1], [c[3][1] for c in comp]), [rows[base + 6][0]], cls="oracle:snc")
            elif base in single:
                c, j, l = [x[1] for x in single[base]]
                if c and j and l and c[0] == "n" and j[0] == "l":
                    ctx.oracle("rbf_is_cost_of_arrivals", snv == c[1] and jcv == list(j[1]) and lwv == l[1],
                               "RBF: service_needed=%d job costs=%s least=%d but cost model says cost=%d jobs=%s least=%d" % (snv, jcv[:20], lwv, c[1], list(j[1])[:20], l[1]), Q, cls="oracle:rbf_compose")
        finalize(ctx)

# ============================================================================= C14
def run_maxima(costs, n):
    if n == 0: return 0
    if n > len(costs): return None
    return max(sum(costs[i:i + n]) for i in range(len(costs) - n + 1))

@register("C14")
class C14(Prop):
    rule = ("cost models (scalar, multiframe, cumulative curves, extrapolating curves), cost traces of length <= 16 with max_n <= 6 "
            "incl. traces whose expensive runs lie at the end, query histories on shared extrapolating curves; non-trivial = distinct "
            "query with non-zero result")
    proof_status = "see coverage.theorems"
    def run(self, ctx):
        rng = ctx.rng
        qs = []; meta = []
        for _ in range(ctx.scale(150, 2000)):
            cm = gen.gen_cm(rng, False, positive=False)
            if rng.random() < 0.15:      # wcet::Curve::from_iter repairs non-monotone input by a running maximum: dips of several entries
                v = sorted(rng.randint(1, 30) for _ in range(rng.randint(3, 7)))
                i0 = rng.randrange(1, len(v)); 
                for j in range(i0, min(len(v), i0 + rng.randint(1, 3))): v[j] = rng.randint(0, v[i0 - 1])
                cm = ["ccurve", ["cfromiter", v]]
            if rng.random() < 0.2: cm = ["default_cm", cm]       # a user-defined model relying on the trait's provided methods
            N = rng.randint(1, 30)
            base = len(qs)
            qs += [["cost", cm, 0], ["jobcosts", cm, N]] + [["cost", cm, k] for k in range(1, N + 1)] + [["least", cm, k] for k in (1, max(1, N // 2), N)]
            meta.append(("cm", base, cm, N))
        for _ in range(ctx.scale(150, 2000)):
            costs = [rng.choice([0, 0, rng.randint(1, 12), rng.randint(1, 12), rng.randint(1, 12)]) if rng.random() < 0.5 else rng.randint(1, 12)
                     for _ in range(rng.randint(1, 16))]
            r = rng.random()
            if r < 0.3: costs[-1] = rng.randint(10, 30)                  # expensive run at the very end
            elif r < 0.5: costs[0] = rng.randint(10, 30)                 # ... or at the very beginning, followed by cheap / zero-cost jobs
            if rng.random() < 0.3 and len(costs) >= 2: costs[1] = 0
            k = rng.randint(1, 6)
            w = ["cfrom_trace", costs, k]
            N = len(costs) + rng.randint(0, 6)
            base = len(qs)
            qs += [["wcurvevec", w]] + [["cost", ["ccurve", w], n] for n in range(0, N + 1)]
            meta.append(("trace", base, costs, k, N))
            if len(costs) >= 3 and k >= 3:
                E = rng.randint(1, 14)
                base = len(qs)
                qs += [["wcurvevec", ["cextrapolate", w, E]]] + [["cost", ["ccurve", ["cextrapolate", w, E]], n] for n in range(0, N + 1)] \
                      + [["cost", ["cextrap", w], n] for n in range(0, N + 1)] + [["cost", ["ccurve", w], n] for n in range(0, N + 1)]
                meta.append(("extrap", base, costs, k, N, E))
        for _ in range(ctx.scale(80, 1000)):
            q = families.q_chist(rng)[0]
            base = len(qs); qs.append(q)
            w = q[1]
            fresh = []
            for op in q[2]:
                if op[0] == "hcost": fresh.append(["cost", ["cextrap", w], op[2]])
                elif op[0] == "hleast": fresh.append(["least", ["cextrap", w], op[2]])
                elif op[0] == "hjc": fresh.append(["jobcosts", ["cextrap", w], op[2]])
            qs += fresh
            meta.append(("hist", base, q, len(fresh)))
        rows = ctx.run(qs)
        ctx.correspond(rows)
        for m in meta:
            if m[0] == "cm":
                _, base, cm, N = m
                v = [rows[base + i][1] for i in range(2 + N + 3)]
                if any(x is None or x[0] not in ("n", "l") for x in v): continue
                c0, jobs, costs = v[0][1], list(v[1][1]), [x[1] for x in v[2:2 + N]]
                Q = [rows[base + 1][0]]
                ok = c0 == 0 and all(costs[i] <= costs[i + 1] for i in range(N - 1)) and all(sum(jobs[:k]) == costs[k - 1] for k in range(1, N + 1))
                ctx.oracle("cost_is_monotone_sum_of_job_costs", ok, "cost_of_jobs(0)=%d, cost_of_jobs(1..)=%s, job_cost_iter=%s" % (c0, costs[:20], jobs[:20]), Q + [rows[base + 2][0]], cls="oracle:cost_sum")
                for (kk, lv) in zip((1, max(1, N // 2), N), v[2 + N:]):
                    ctx.oracle("least_wcet_below_items", lv[1] <= min(jobs[:kk]), "least_wcet(%d)=%d exceeds an item of %s" % (kk, lv[1], jobs[:kk]), Q, cls="oracle:least")
            elif m[0] == "trace":
                _, base, costs, k, N = m
                vals = [rows[base + 1 + n][1] for n in range(N + 1)]
                if any(x is None or x[0] != "n" for x in vals): continue
                for n in range(0, len(costs) + 1):
                    rm = run_maxima(costs, n)
                    ctx.dist("trace_run", "beyond_prefix" if n > k else "inside_prefix")
                    ctx.oracle("trace_runs_are_bounded", vals[n][1] >= rm,
                               "trace %s, max_n=%d: a run of %d consecutive jobs costs %d but cost_of_jobs(%d)=%d" % (costs, k, n, rm, n, vals[n][1]),
                               [rows[base + 1 + n][0]], cls="oracle:trace_bound")
                    if n <= k:
                        ctx.oracle("trace_prefix_is_exact", vals[n][1] == rm, "trace %s max_n=%d: cost_of_jobs(%d)=%d but the maximum run is %d" % (costs, k, n, vals[n][1], rm), [rows[base + 1 + n][0]], cls="oracle:trace_exact")
            elif m[0] == "extrap":
                _, base, costs, k, N, E = m
                ext = [rows[base + 1 + n][1] for n in range(N + 1)]
                lazy = [rows[base + 1 + (N + 1) + n][1] for n in range(N + 1)]
                orig = [rows[base + 1 + 2 * (N + 1) + n][1] for n in range(N + 1)]
                vec = rows[base][1]
                if any(x is None or x[0] != "n" for x in ext + lazy + orig) or not vec or vec[0] != "l": continue
                horizon = len(vec[1])
                for n in range(0, N + 1):
                    if ext[n][1] > orig[n][1]:
                        inside = n <= horizon
                        ctx.oracle("extrapolation_never_raises", False,
                                   "trace %s max_n=%d: extrapolate(%d) raises cost_of_jobs(%d) from %d to %d (%s the extrapolated vector of length %d)" %
                                   (costs, k, E, n, orig[n][1], ext[n][1], "inside" if inside else "beyond", horizon),
                                   [rows[base + 1 + n][0], rows[base + 1 + 2 * (N + 1) + n][0]],
                                   cls="oracle:extrap_raises" if inside else "oracle:extrap_raises_beyond")
                        break
                else:
                    ctx.oracle("extrapolation_never_raises", True, "", [])
                for n in range(0, len(costs) + 1):
                    rm = run_maxima(costs, n)
                    ctx.oracle("extrapolation_dominates_trace", ext[n][1] >= rm and lazy[n][1] >= rm,
                               "trace %s max_n=%d extrapolate(%d): run of %d jobs costs %d, curve says %d / caching curve %d" % (costs, k, E, n, rm, ext[n][1], lazy[n][1]),
                               [rows[base + 1 + n][0]], cls="oracle:extrap_dominates")
                for n in range(0, min(N, horizon) + 1):
                    ctx.oracle("eager_equals_lazy_within_horizon", ext[n][1] == lazy[n][1], "extrapolate(%d) and the caching curve disagree at n=%d: %d vs %d" % (E, n, ext[n][1], lazy[n][1]),
                               [rows[base + 1 + n][0], rows[base + 1 + (N + 1) + n][0]], cls="oracle:extrap_eager_lazy")
            elif m[0] == "hist":
                _, base, q, nf = m
                hv = rows[base][1]
                fresh = [rows[base + 1 + i][1] for i in range(nf)]
                if not hv or hv[0] != "l" or any(f is None or f[0] not in ("n", "l") for f in fresh): continue
                exp = []
                for f in fresh: exp += [f[1]] if f[0] == "n" else list(f[1])
                ctx.oracle("history_independent", list(hv[1]) == exp, "query history answers %s differ from fresh answers %s" % (list(hv[1]), exp), [q], cls="oracle:cache_visible")
        finalize(ctx)

# ============================================================================= C12
def trace_counts(trace, H):
    return max_window_counts(trace, H)

@register("C12")
class C12(Prop):
    rule = ("traces with bursts/simultaneous events (k+1 events never all simultaneous), prefix lengths 2..6, horizons far beyond the prefix; "
            "conversions from periodic/sporadic/extrapolating/propagated sources via from_arrival_bound(_until), From impls, "
            "ArrivalCurvePrefix::from_arrival_bound_until; delta_min_iter duality; non-trivial = distinct query with non-zero table")
    proof_status = "see coverage.theorems"
    def run(self, ctx):
        rng = ctx.rng
        qs = []; meta = []
        for _ in range(ctx.scale(150, 2000)):
            for _try in range(20):
                tr = families.gen_trace(rng); K = rng.randint(2, 6)
                d = gen.dmin_of_trace(tr, K)
                if d and d[-1] > 0: break
            else: continue
            H = (tr[-1] - tr[0]) + rng.randint(2, 30)
            base = len(qs)
            qs += [["curvevec", ["from_trace", tr, K]], ["natab", ["curve", ["from_trace", tr, K]], H]]
            meta.append(("trace", base, tr, K, H))
        srcs = ["periodic", "sporadic", "extrap", "propagated", "jitter", "sum"]
        for _ in range(ctx.scale(160, 2000)):
            ab = gen.gen_ab(rng, rng.choice([0, 0, 1]), srcs, True, True)
            H = rng.randint(20, 200)
            r = rng.random()
            if r < 0.3: conv = ["from_ab", ab, rng.randint(1, 10)]; how = "from_ab"
            elif r < 0.6: conv = ["from_ab_until", ab, rng.randint(0, 60)]; how = "from_ab_until"
            elif r < 0.7:
                T = rng.randint(1, 30); ab = ["periodic", T]; conv = ["of_periodic", T]; how = "of_periodic"
            elif r < 0.75:
                T = rng.randint(5, 40); J = rng.choice([0, rng.randint(0, 2 * T)]); ab = ["sporadic", T, J]; conv = ["of_sporadic", T, J]; how = "of_sporadic"; H = rng.randint(20, 120)
            else:
                hz = rng.randint(1, 60); conv = None; how = "prefix_from"
            base = len(qs)
            if conv is not None:
                qs += [["curvevec", conv], ["natab", ["curve", conv], H], ["natab", ab, H]]
                meta.append(("conv", base, ab, how, H))
            else:
                p = ["prefix_from", ab, hz]
                qs += [["prefixsteps", p], ["natab", ["prefix", p], H], ["natab", ab, H]]
                meta.append(("pconv", base, ab, hz, H))
            ctx.dist("conversion", how)
        # sums of identical periodic streams: delta-min vectors with plateaus of three or more equal entries (at the end, too)
        for _ in range(ctx.scale(12, 150)):
            T = rng.randint(3, 25); m = rng.randint(3, 5); ab = ["sum", [["periodic", T]] * m]
            conv = ["from_ab", ab, rng.randint(2, 3 * m)] if rng.random() < 0.6 else ["from_ab_until", ab, rng.randint(0, 3 * T)]
            base = len(qs); H = rng.randint(2 * T, 8 * T)
            qs += [["curvevec", conv], ["natab", ["curve", conv], H], ["natab", ab, H]]
            meta.append(("conv", base, ab, conv[0], H))
        # witnesses of the repaired defect (fixed: 5ca7197): sources with three or more simultaneous arrivals
        for ab, conv, H in ((["sporadic", 19, 40], ["from_ab_until", ["sporadic", 19, 40], 10], 80), (["sporadic", 3, 7], ["from_ab", ["sporadic", 3, 7], 3], 40),
                            (["sporadic", 5, 10], ["from_ab", ["sporadic", 5, 10], 2], 40), (["sporadic", 3, 7], ["from_ab_until", ["sporadic", 3, 7], 0], 40)):
            base = len(qs)
            qs += [["curvevec", conv], ["natab", ["curve", conv], H], ["natab", ab, H]]
            meta.append(("conv", base, ab, conv[0], H))
        for _ in range(ctx.scale(100, 1200)):
            ab = gen.gen_ab(rng, rng.choice([0, 1]), ["periodic", "sporadic", "curve", "extrap", "propagated", "jitter", "sum"], True, True)
            K = rng.randint(3, 12)
            base = len(qs)
            qs += [["dmins", ab, K], ["natab", ab, 400]]
            meta.append(("dual", base, ab, K))
        rows = ctx.run(qs)
        ctx.correspond(rows)
        for m in meta:
            if m[0] == "trace":
                _, base, tr, K, H = m
                tab = rows[base + 1][1]
                if not tab or tab[0] != "l": continue
                cnt = trace_counts(tr, H)
                bad = [d for d in range(H + 1) if cnt[d] > tab[1][d]]
                ctx.oracle("trace_windows_are_bounded", not bad, "trace %s prefix_jobs=%d: a window of length %s holds %s events but the inferred curve says %s" %
                           (tr, K, bad[:1], [cnt[d] for d in bad[:1]], [tab[1][d] for d in bad[:1]]), [rows[base + 1][0]], cls="oracle:trace_undercount")
            elif m[0] in ("conv", "pconv"):
                base, ab, H = m[1], m[2], m[4]
                vec, der, src = rows[base][1], rows[base + 1][1], rows[base + 2][1]
                if m[0] == "conv" and vec and vec[0] == "l" and vec[1] and vec[1][-1] == 0 and der and der[0] in ("panic", "timeout"):
                    ctx.oracle("derived_curve_is_usable", False, "the derived delta-min vector %s ends in 0: number_arrivals of the derived curve %s" % (list(vec[1]), der[0]),
                               [rows[base][0], rows[base + 1][0]], cls="oracle:conv_zero_last")
                    continue
                if not vec or not der or not src or vec[0] != "l" or der[0] != "l" or src[0] != "l": continue
                bad = [d for d in range(H + 1) if der[1][d] < src[1][d]]
                ctx.oracle("derived_dominates_source", not bad, "derived curve is below its source at delta=%s: %s < %s" % (bad[:1], [der[1][d] for d in bad[:1]], [src[1][d] for d in bad[:1]]),
                           [rows[base + 1][0], rows[base + 2][0]], cls="oracle:conv_below_source")
                cover = (vec[1][-1] if m[0] == "conv" else vec[1][0]) if vec[1] else 0
                plateau = m[0] == "conv" and len(vec[1]) >= 2 and vec[1][-1] == vec[1][-2]
                bad = [d for d in range(min(H, cover) + 1) if der[1][d] != src[1][d]]
                pcls = "oracle:conv_inexact"
                if bad and plateau and bad == [cover]: pcls = "oracle:conv_inexact:plateau_at_last"
                ctx.oracle("derived_exact_on_prefix", not bad, "derived curve differs from its source inside the covered prefix (<= %d) at delta=%s: %s vs %s" %
                           (cover, bad[:1], [der[1][d] for d in bad[:1]], [src[1][d] for d in bad[:1]]), [rows[base + 1][0], rows[base + 2][0]], cls=pcls)
            elif m[0] == "dual":
                _, base, ab, K = m
                dm, tab = rows[base][1], rows[base + 1][1]
                if not dm or not tab or dm[0] != "l" or tab[0] != "l": continue
                pairs = list(zip(dm[1][0::2], dm[1][1::2]))
                ok = True; why = ""
                for idx, (n, x) in enumerate(pairs):
                    if idx < 2:
                        if (n, x) != (idx, 0): ok = False; why = "first items must be (0,0),(1,0)"
                        continue
                    if n != idx: ok = False; why = "job counts must be consecutive"; break
                    if x + 1 >= len(tab[1]): continue
                    if not (tab[1][x + 1] >= n and tab[1][x] < n): ok = False; why = "(%d, %d): na(%d)=%d, na(%d)=%d" % (n, x, x + 1, tab[1][x + 1], x, tab[1][x]); break
                ctx.oracle("delta_min_is_dual_of_number_arrivals", ok, "delta_min_iter %s is not the dual of number_arrivals: %s" % (pairs[:8], why), [rows[base][0]], cls="oracle:dmin_dual")
        finalize(ctx)

# ============================================================================= C13
@register("C13")
class C13(Prop):
    rule = ("super-additive delta-min prefixes (length 2..6, bursts, plateaus) extended by extrapolate/extrapolate_steps; tables far beyond "
            "the extrapolated horizon; greedy 'as early as possible' event sequences respecting the original prefix; interleaved "
            "query histories (number_arrivals / live steps iterators) on clones sharing one cache; non-trivial = distinct query with "
            "non-zero result")
    proof_status = "see coverage.theorems"
    def run(self, ctx):
        rng = ctx.rng
        qs = []; meta = []
        for _ in range(ctx.scale(200, 2500)):
            for _t in range(50):
                d = gen.gen_dmin(rng, True, True)
                if len(d) >= 2: break
            else: continue
            c0 = ["dmin", d]
            if rng.random() < 0.6: ext = ["extrapolate", c0, rng.randint(0, 150)]
            else: ext = ["extrapolate_steps", c0, rng.randint(0, 25)]
            H = rng.randint(10, 160)
            base = len(qs)
            qs += [["curvevec", ext], ["natab", ["curve", ext], H], ["natab", ["curve", c0], H], ["natab", ["extrap", c0], H],
                   ["natab", ["curve", ["extrapolate", c0, H + 1]], H], ["steps", ["extrap", c0], H, 100000]]
            meta.append(("ext", base, d, H))
        # extrapolate_with_bound: prefixes of one to five entries (one entry: nothing to extrapolate from, the bound itself is stored),
        # the expected job count len + 2 (and, rarely, another one: then the call must change nothing)
        for _ in range(ctx.scale(60, 700)):
            d = gen.gen_dmin(rng, True, True, maxlen=5) if rng.random() < 0.6 else [rng.randint(1, 12)]
            n = len(d) + 2 if rng.random() < 0.85 else len(d) + rng.choice([1, 3])
            D = d[-1] + 1 + rng.randint(0, 12)
            ext = ["extrapolate_with_bound", ["dmin", d], D, n]
            H = rng.randint(10, 90); base = len(qs)
            qs += [["curvevec", ext], ["natab", ["curve", ext], H]]
            meta.append(("ewb", base, d, D, n, H))
        for _ in range(ctx.scale(120, 1500)):
            q = families.q_hist(rng)[0]
            c = q[1]
            base = len(qs); qs.append(q)
            fresh = []; opened = []
            counters = []
            for op in q[2]:
                if op[0] == "hna": fresh.append(("na", ["na", ["extrap", c], op[2]]))
                elif op[0] == "hopen": counters.append(0)
                elif op[0] == "hnext":
                    fresh.append(("next", counters[op[1]])); counters[op[1]] += 1
            mx = max([f[1] for f in fresh if f[0] == "next"], default=-1)
            qs.append(["steps", ["extrap", c], 80 * (mx + 2), mx + 1])
            nas = [f[1] for f in fresh if f[0] == "na"]
            qs += nas
            meta.append(("hist", base, q, fresh, len(nas)))
        rows = ctx.run(qs)
        ctx.correspond(rows)
        for m in meta:
            if m[0] == "ewb":
                _, base, d, D, n, H = m
                vec, tab = rows[base][1], rows[base + 1][1]
                if not vec or not tab or vec[0] != "l" or tab[0] != "l": continue
                v = list(vec[1])
                if n != len(d) + 2:
                    ctx.oracle("with_bound_wrong_count_is_noop", v == d, "extrapolate_with_bound(%s, (%d, %d)) changed the vector to %s although the bound is for another job count" % (d, D, n, v), [rows[base][0]], cls="oracle:ewb_noop")
                    continue
                ctx.oracle("with_bound_keeps_prefix", v[:len(d)] == d and len(v) == len(d) + 1 and v[-1] >= D - 1, "extrapolate_with_bound(%s, (%d, %d)) gives %s" % (d, D, n, v), [rows[base][0]], cls="oracle:ewb_prefix")
                # a sequence that respects the prefix and the bound (n jobs need more than D - 1) must still be covered
                es = events_for(["curve", ["dmin", d + [max(D - 1, d[-1])]]], rng, 3 * H + 10, True)
                cnt = max_window_counts(es, H)
                bad = [x for x in range(H + 1) if cnt[x] > tab[1][x]]
                ctx.oracle("with_bound_still_bounds_sequences", not bad, "a sequence respecting %s and the bound (%d jobs need > %d) has %s events in a window of %s but the extended curve %s allows %s" %
                           (d, n, D - 1, [cnt[x] for x in bad[:1]], bad[:1], v, [tab[1][x] for x in bad[:1]]), [rows[base][0], rows[base + 1][0]], cls="oracle:ewb_undercount")
                continue
            if m[0] == "ext":
                _, base, d, H = m
                v = [rows[base + i][1] for i in range(6)]
                if any(x is None or x[0] != "l" for x in v): continue
                vec, text, torig, tlazy, teager, steps = [list(x[1]) for x in v]
                Q = [rows[base][0], rows[base + 1][0]]
                ctx.oracle("prefix_unchanged", vec[:len(d)] == d and all(vec[i] <= vec[i + 1] for i in range(len(vec) - 1)), "extrapolation changed the original prefix %s -> %s" % (d, vec[:len(d) + 2]), Q, cls="oracle:prefix_changed")
                bad = [x for x in range(0, min(H, d[-1] - 1) + 1) if text[x] != torig[x]]
                ctx.oracle("values_inside_prefix_unchanged", not bad, "number_arrivals changed inside the original prefix at %s" % bad[:3], Q, cls="oracle:inside_changed")
                hz = vec[-1]
                for x in range(0, H + 1):
                    inside = x <= hz          # (since fix 7d9efbf also for plateau-ended extrapolated vectors)
                    ctx.dist("tighten_query", "within_horizon" if inside else "beyond_horizon")
                    if text[x] > torig[x]:
                        ctx.oracle("only_tightens", False, "prefix %s extrapolated to %s: number_arrivals(%d) = %d exceeds the un-extrapolated curve's %d (%s the extrapolated horizon %d)" %
                                   (d, vec, x, text[x], torig[x], "within" if inside else "beyond", hz), Q + [rows[base + 2][0]],
                                   cls="oracle:raises" if inside else "oracle:raises_beyond_horizon")
                        break
                else:
                    ctx.oracle("only_tightens", True, "", Q)
                es = events_for(["curve", ["dmin", d]], rng, 3 * H + 10, True)
                cnt = max_window_counts(es, H)
                bad = [x for x in range(H + 1) if cnt[x] > tlazy[x] or cnt[x] > text[x]]
                ctx.oracle("still_bounds_sequences_of_the_prefix", not bad, "a sequence respecting %s has %s events in a window of %s but the extrapolated curve allows %s" %
                           (d, [cnt[x] for x in bad[:1]], bad[:1], [min(tlazy[x], text[x]) for x in bad[:1]]), Q, cls="oracle:ext_undercount", extra=dict(events=es[:100]))
                ctx.oracle("lazy_equals_eager", tlazy == teager, "ExtrapolatingCurve differs from an eagerly extrapolated Curve: %s vs %s" % (tlazy[:30], teager[:30]), [rows[base + 3][0], rows[base + 4][0]], cls="oracle:lazy_eager")
                exp = [x for x in range(1, H + 1) if tlazy[x - 1] < tlazy[x]]
                ctx.oracle("extrapolating_steps", steps == exp, "ExtrapolatingCurve::steps_iter %s vs increase points %s" % (steps[:30], exp[:30]), [rows[base + 5][0]], cls="oracle:lazy_steps")
            else:
                _, base, q, fresh, nn = m
                hv, stepsv = rows[base][1], rows[base + 1][1]
                nav = [rows[base + 2 + i][1] for i in range(nn)]
                if hv and hv[0] in ("panic", "timeout", "crash"):
                    ctx.oracle("history_never_fails", False, "a query history on clones sharing the cache fails with %s (shared mutable state)" % hv[0], [q], cls="oracle:cache_fails")
                    continue
                if not hv or hv[0] != "l" or not stepsv or stepsv[0] != "l" or any(x is None or x[0] != "n" for x in nav): continue
                exp = []; it = iter(nav)
                for f in fresh:
                    if f[0] == "na": exp.append(next(it)[1])
                    else: exp.append(stepsv[1][f[1]] if f[1] < len(stepsv[1]) else None)
                ctx.oracle("history_independent", list(hv[1]) == exp, "answers under the query history %s differ from fresh answers %s" % (list(hv[1]), exp), [q], cls="oracle:cache_visible")
        finalize(ctx)
KNOWN_PREDICATES["C13-beyond-horizon"] = lambda v: v.get("cls") == "oracle:raises_beyond_horizon"
KNOWN_PREDICATES["C12-zero-last"] = lambda v: v.get("cls") == "oracle:conv_zero_last"
# C17: ECRTS'19 timer / polling-point / chain with a NON-SCALAR own cost model: raising one frame's WCET lowers the bound
KNOWN_PREDICATES["C17-least-wcet"] = lambda v: v.get("cls") in ("oracle:monotone:pp:frame+", "oracle:monotone:timer:frame+", "oracle:monotone:chain:frame+")
KNOWN_PREDICATES["C14-beyond-extrapolated"] = lambda v: v.get("cls") == "oracle:extrap_raises_beyond"
KNOWN_PREDICATES["C12-plateau-at-last"] = lambda v: v.get("cls") == "oracle:conv_inexact:plateau_at_last"

# ============================================================================= exhaustive evaluators (python, from the implementation's own tables)
def least_fix(limit, f):
    for x in range(1, limit + 1):
        if f(x) <= x: return x
    return None

def tab_fn(tab):
    t = list(tab)
    return lambda d: t[d] if d < len(t) else t[-1] + 10 ** 9     # beyond the table: never a solution

def exh_generic(limit, bw_rhs, rhs, bound):
    L = least_fix(limit, bw_rhs)
    if L is None: return ("err", 0, limit)
    best = 0
    for A in range(0, L):
        AF = least_fix(limit, lambda x: rhs(A, x))
        if AF is None: return ("err", 0, limit)
        best = max(best, bound(A, AF))
    return ("ok", best)

def exh_fp(B, rem, tua, hp, limit):
    return exh_generic(limit, lambda L: B + hp(L) + tua(L), lambda A, x: B + max(0, tua(A + 1) - rem) + hp(x), lambda A, AF: max(0, AF - A) + rem)

def exh_edf(use_blocking, rem, tua, D, others, limit):
    """others: list of (rbf, D_o, seg)"""
    def blocking(A):
        if not use_blocking: return 0
        return max([max(0, seg - 1) for (f, Do, seg) in others if Do > D + A and f(1) > 0], default=0)
    return exh_generic(limit, lambda L: sum(f(L) for f, _, _ in others) + tua(L),
                       lambda A, x: blocking(A) + max(0, tua(A + 1) - rem) + sum(f(min(x, max(0, A + 1 + D - Do))) for f, Do, _ in others),
                       lambda A, AF: max(0, AF - A) + rem)

def exh_fifo(total, limit):
    L = least_fix(limit, total)
    if L is None: return ("err", 0, limit)
    return ("ok", max([max(0, total(A + 1) - A) for A in range(L)], default=0))

def ded_query_parts(q):
    """(tua_rb, [other rbs]) as RB expressions whose sntab is needed"""
    k = q[0]
    sc = lambda ab, C: ["rbf", ab, ["scalar", C]]
    if k == "fp_fp": return q[1], list(q[2])
    if k == "fp_np": return sc(q[1], q[2]), list(q[4])
    if k == "fp_lp": return sc(q[1], q[2]), list(q[5])
    if k == "fp_fnp": return q[1], list(q[3])
    if k == "edf_fp": return q[1][0], [o[0] for o in q[2]]
    if k == "edf_np": return sc(q[1][0], q[1][1]), [sc(o[0], o[1]) for o in q[2]]
    if k == "edf_lp": return sc(q[1][0], q[1][1]), [o[0] for o in q[2]]
    if k == "edf_fnp": return q[1][0], [o[0] for o in q[2]]
    if k == "fifo": return q[1], []
    raise ValueError(k)

def ded_limit(q): return q[-1]

def ded_exhaustive(q, tua_tab, other_tabs):
    k = q[0]; limit = q[-1]
    tua = tab_fn(tua_tab); ofs = [tab_fn(t) for t in other_tabs]
    hp = lambda d: sum(f(d) for f in ofs)
    if k == "fp_fp": return exh_fp(0, 0, tua, hp, limit)
    if k == "fp_np": return exh_fp(q[3], q[2] - 1, tua, hp, limit)
    if k == "fp_lp": return exh_fp(q[4], q[3] - 1, tua, hp, limit)
    if k == "fp_fnp": return exh_fp(q[2], 0, tua, hp, limit)
    if k == "edf_fp": return exh_edf(False, 0, tua, q[1][1], [(f, o[1], 0) for f, o in zip(ofs, q[2])], limit)
    if k == "edf_np": return exh_edf(True, q[1][1] - 1, tua, q[1][2], [(f, o[2], o[1]) for f, o in zip(ofs, q[2])], limit)
    if k == "edf_lp": return exh_edf(True, q[1][3] - 1, tua, q[1][2], [(f, o[1], o[2]) for f, o in zip(ofs, q[2])], limit)
    if k == "edf_fnp": return exh_edf(True, 0, tua, q[1][1], [(f, o[1], o[2]) for f, o in zip(ofs, q[2])], limit)
    if k == "fifo": return exh_fifo(tua, limit)
    raise ValueError(k)

def gen_ded_queries(rng, n, abkinds=None, tight=0.0, dense=0.0):
    """tight: fraction of queries whose divergence limit is drawn small (1..40), i.e. close to the busy-window
    length and the per-offset fixed points, where off-by-one slips in limit/offset handling show"""
    qs = []
    while len(qs) < n:
        r = rng.random()
        if r < 0.42: q = families.q_fp(rng, None, abkinds)
        elif r < 0.84: q = families.q_edf(rng, None, abkinds)
        else: q = families.q_fifo(rng, abkinds)
        if rng.random() < tight:
            for x in q: x[-1] = rng.randint(1, 40)
        qs += q
        if dense and rng.random() < dense: qs += families.q_dense(rng)
    return qs

def run_with_tables(ctx, queries, model=True):
    """runs the analyses and, in the same batch, the sntab of every RBF involved (horizon limit + 1)"""
    qs = []; index = []
    for q in queries:
        tua, others = ded_query_parts(q)
        base = len(qs)
        H = ded_limit(q) + 1
        qs.append(q); qs.append(["sntab", tua, H])
        for o in others: qs.append(["sntab", o, H])
        index.append((base, len(others)))
    rows = ctx.run(qs, model=model)
    out = []
    for (base, no), q in zip(index, queries):
        tabs = [rows[base + 1 + i][1] for i in range(no + 1)]
        out.append((rows[base], tabs))
    return rows, out

@register("C06")
class C06(Prop):
    rule = ("task sets of 1-4 tasks over periodic/sporadic(jitter)/bursty delta-min/extrapolating/propagated/summed curves, scalar costs, "
            "utilisation steered over 0.3..1.1, limits 1..500, deadlines below/equal/above the period, segments in {1, C, random}; "
            "oracle = naive exhaustive evaluation (every offset in [0, L), linear-scan fixed points) over the implementation's own "
            "service_needed tables; non-trivial = distinct analysis query whose result is not Ok(0)")
    proof_status = "full for all nine analyses over the function-level skeletons (see coverage.theorems)"
    assumptions = ["the task under analysis can release a job (rbf(1) > 0); otherwise the search space is empty and the analyses return Ok(0)"]
    def run(self, ctx):
        rng = ctx.rng
        queries = gen_ded_queries(rng, ctx.scale(350, 6000), None, 0.3, 0.25)
        rows, packed = run_with_tables(ctx, queries)
        ctx.correspond(rows)
        # a larger, cheaper stream evaluated by the implementation and the exhaustive oracle only (no Coq evaluation)
        rows_o, packed_o = run_with_tables(ctx, gen_ded_queries(rng, ctx.scale(4500, 40000), None, 0.35, 1.0), model=False)
        for ((q, dv, rv, mv), tabs) in packed + packed_o:
            if any(t is None or t[0] != "l" for t in tabs): continue
            ctx.dist("analysis", q[0])
            if tabs[0][1][1] == 0: ctx.dist("tua", "never_arrives"); continue
            exp = ded_exhaustive(q, tabs[0][1], [t[1] for t in tabs[1:]])
            ctx.dist("outcome", exp[0])
            for name, iv in (("debug", dv), ("release", rv)):
                ctx.oracle("equals_exhaustive_evaluation", iv == exp,
                           "%s (%s build) returns %s but exhaustive evaluation of its equations over every offset gives %s" % (q[0], name, rta.show(iv), rta.show(exp)),
                           [q], cls="oracle:exhaustive:" + q[0])
        finalize(ctx)

# ============================================================================= C19
@register("C19")
class C19(Prop):
    rule = ("pairs of corresponding inputs: LP(last=1)/FNP/FP, LP(last=C)/NP for FP and EDF, max NP-EDF over tasks with equal deadlines vs FIFO, "
            "ROS 2 analyses under dedicated / periodic(Q=P) / constrained(Q=D=P) supplies, event source on a dedicated processor vs FIFO "
            "(exact realisable curves); non-trivial = distinct query whose result is not Ok(0)")
    proof_status = "full (see coverage.theorems)"
    def run(self, ctx):
        rng = ctx.rng
        qs = []; meta = []
        def pair(name, a, b):
            qs.append(a); qs.append(b); meta.append((name, len(qs) - 2))
        for _ in range(ctx.scale(90, 1500)):
            tua, hp = families.gen_ded_system(rng, families.AB_ANALYSIS)
            C = tua[2][1]; ab = tua[1]; B = rng.choice([0, rng.randint(0, 6)])
            limit = families.pick_limit(rng) if rng.random() < 0.55 else rng.randint(1, 40)      # tight limits: Ok/Err agreement
            pair("fp_lp(last=1)=fp_fnp", ["fp_lp", ab, C, 1, B, hp, limit], ["fp_fnp", tua, B, hp, limit])
            pair("fp_lp(last=1,B=0)=fp_fp", ["fp_lp", ab, C, 1, 0, hp, limit], ["fp_fp", tua, hp, limit])
            pair("fp_lp(last=C)=fp_np", ["fp_lp", ab, C, C, B, hp, limit], ["fp_np", ab, C, B, hp, limit])
            D = rng.randint(1, 120)
            od = [rng.choice([D, rng.randint(1, 150)]) for _ in hp]
            if rng.random() < 0.25:
                # a heavy blocker with a long deadline plus an interferer with a short period and deadline: releases of the
                # interferer fall INTO the blocking interval, so the blocking term must stay inside the fixed-point equation
                C = rng.randint(1, 4); ab = ["periodic", rng.randint(15, 40)]; tua = ["rbf", ab, ["scalar", C]]; D = rng.randint(6, 14)
                hp = [["rbf", ["periodic", rng.randint(40, 90)], ["scalar", rng.randint(6, 14)]], ["rbf", ["periodic", rng.randint(4, 9)], ["scalar", rng.randint(1, 2)]]]
                od = [D + rng.randint(15, 50), rng.randint(2, D)]
                limit = rng.randint(100, 400)
            pair("edf_lp(segs=1)=edf_fnp", ["edf_lp", [ab, C, D, 1], [[o, d, 1] for o, d in zip(hp, od)], limit], ["edf_fnp", [tua, D], [[o, d, 1] for o, d in zip(hp, od)], limit])
            pair("edf_fnp(segs=1)=edf_fp", ["edf_fnp", [tua, D], [[o, d, 1] for o, d in zip(hp, od)], limit], ["edf_fp", [tua, D], [[o, d] for o, d in zip(hp, od)], limit])
            pair("edf_lp(segs=C)=edf_np", ["edf_lp", [ab, C, D, C], [[o, d, o[2][1]] for o, d in zip(hp, od)], limit], ["edf_np", [ab, C, D], [[o[1], o[2][1], d] for o, d in zip(hp, od)], limit])
        # NP-EDF with equal deadlines vs FIFO; event source vs FIFO
        nmeta = []
        for _ in range(ctx.scale(60, 1200)):
            ts = gen.gen_taskset(rng, rng.randint(1, 4), rng.choice([0.3, 0.6, 0.9, 1.1]), families.AB_EXACT, True, True)
            D = rng.randint(1, 100); limit = families.pick_limit(rng) if rng.random() < 0.5 else rng.randint(1, 30)    # tight limits: Ok/Err agreement
            base = len(qs)
            for i, t in enumerate(ts):
                qs.append(["edf_np", [t[1], t[2][1], D], [[o[1], o[2][1], D] for j, o in enumerate(ts) if j != i], limit])
            qs.append(["fifo", ["agg", ts], limit])
            qs.append(["es", ["dedicated"], ["agg", ts], limit])
            nmeta.append((base, len(ts)))
        # small dense systems under EVERY limit from 1 to 30: a demand step exactly at the end of the busy window together with a limit
        # between the busy-window length and the fixed point is where per-offset limit handling of the event-source analysis shows
        for _ in range(ctx.scale(10, 120)):
            ts = [["rbf", ["sporadic", rng.randint(3, 12), 0] if rng.random() < 0.7 else ["periodic", rng.randint(3, 12)], ["scalar", rng.randint(1, 3)]] for _ in range(rng.randint(1, 3))]
            for limit in range(1, 31):
                base = len(qs)
                qs.append(["fifo", ["agg", ts], limit]); qs.append(["es", ["dedicated"], ["agg", ts], limit])
                nmeta.append((base, 0))
        smeta = []
        for _ in range(ctx.scale(70, 1500)):
            P = rng.randint(1, 20)
            q = families.q_ros(rng)[0]
            base = len(qs)
            for sb in (["dedicated"], ["periodic_s", P, P], ["constrained_s", P, P, P]):
                qq = list(q); qq[1] = sb; qs.append(qq)
            smeta.append(base)
        rows = ctx.run(qs)
        ctx.correspond(rows)
        for name, i in meta:
            a, b = rows[i], rows[i + 1]
            ctx.dist("pair", name)
            ctx.oracle(name, a[1] == b[1] and a[2] == b[2], "%s: %s vs %s" % (name, rta.show(a[1]), rta.show(b[1])), [a[0], b[0]], cls="oracle:agree:" + name)
        for base, n in nmeta:
            res = [rows[base + i][1] for i in range(n)]
            fifo, es = rows[base + n][1], rows[base + n + 1][1]
            if any(r is None for r in res) or fifo is None: continue
            errs = [r for r in res if r[0] != "ok"]
            mx = errs[0] if errs else ("ok", max(r[1] for r in res)) if res else fifo
            if n > 0: ctx.oracle("max NP-EDF(equal deadlines)=FIFO", mx == fifo, "largest NP-EDF bound %s vs FIFO %s" % (rta.show(mx), rta.show(fifo)), [rows[base + i][0] for i in range(n + 1)], cls="oracle:agree:npedf_fifo")
            ctx.oracle("event_source(dedicated)=FIFO", es == fifo, "event source on a dedicated processor %s vs FIFO %s" % (rta.show(es), rta.show(fifo)), [rows[base + n][0], rows[base + n + 1][0]], cls="oracle:agree:es_fifo")
        for base in smeta:
            a, b, c = rows[base][1], rows[base + 1][1], rows[base + 2][1]
            ctx.oracle("dedicated=periodic(Q=P)=constrained(Q=D=P)", a == b == c, "%s under dedicated / periodic(Q=P) / constrained(Q=D=P): %s / %s / %s" % (rows[base][0][0], rta.show(a), rta.show(b), rta.show(c)),
                       [rows[base][0], rows[base + 1][0], rows[base + 2][0]], cls="oracle:agree:supplies")
        finalize(ctx)

# ============================================================================= schedule-level oracles (C01, C02, C03, C18)
import sim

def dense_arrivals(ab, rng, horizon, adversarial=True, shift=0):
    es = events_for(ab, rng, horizon, adversarial)
    if not es: return []
    base = es[0] if adversarial else 0
    return [e - base + shift for e in es if e - base + shift < horizon]

def build_jobs(tasks, rng, horizon, adversarial, victim=None, short_costs=False):
    """tasks: list of dicts ab, C, pps(cost)->set; returns job list"""
    jobs = []
    for ti, t in enumerate(tasks):
        for a in dense_arrivals(t["ab"], rng, horizon, adversarial, t.get("shift", 0)):
            c = t["C"] if not short_costs else rng.randint(1, t["C"])
            jobs.append(dict(task=ti, arr=a, cost=c, pps=t["pps"](c)))
    return jobs

def worst_response(tasks, keyf, victim, rng, horizon, tries=3):
    """max observed response time of the victim task's jobs over a few release patterns; tie-breaks
    are adversarial for the victim (it loses every tie)"""
    worst = 0; witness = None
    for tr in range(tries):
        adv = tr == 0
        jobs = build_jobs(tasks, rng, horizon, adv, victim, short_costs=(tr == 2))
        if not jobs: continue
        key = keyf(jobs, victim)
        done = sim.simulate(jobs, key, horizon + sum(j["cost"] for j in jobs) + 2)
        for k, j in enumerate(jobs):
            if j["task"] == victim and done[k] is not None and j["arr"] < horizon:
                r = done[k] - j["arr"]
                if r > worst: worst = r; witness = dict(jobs=[(x["task"], x["arr"], x["cost"]) for x in jobs][:60], job=k, response=r)
    return worst, witness

def fifo_key(jobs, victim):
    return lambda k: (jobs[k]["arr"], 1 if jobs[k]["task"] == victim else 0, k)

def tasks_from_rbs(rbs):
    return [dict(ab=rb[1], C=rb[2][1], pps=sim.pps_full_preemptive) for rb in rbs]

@register("C03")
class C03(Prop):
    rule = ("FIFO task sets (1-4 tasks, jittered/bursty/extrapolating/propagated curves, scalar costs); correspondence one-sided "
            "(implementation at least as pessimistic as the model proved safe); oracle = an independent FIFO scheduler on synchronous "
            "maximal-rate releases (each task in turn losing every tie), random compliant releases and shortened execution times; "
            "non-trivial = distinct analysis query whose result is not Ok(0)")
    proof_status = "full (fifo_rta_sound: end to end from the entry point to every legal schedule)"
    def run(self, ctx):
        rng = ctx.rng
        qs = []
        for _ in range(ctx.scale(260, 4000)):
            qs += families.q_fifo(rng, ["periodic", "sporadic", "curve", "extrap", "propagated", "jitter", "sum"])
        rows = ctx.run(qs)
        ctx.correspond(rows, relation="one")
        for (q, dv, rv, mv) in rows:
            if not dv or dv[0] != "ok": ctx.dist("outcome", dv[0] if dv else "none"); continue
            ctx.dist("outcome", "ok")
            R = min(dv[1], rv[1]) if rv and rv[0] == "ok" else dv[1]
            tasks = tasks_from_rbs(q[1][1])
            H = min(400, 3 * q[2] + 20)
            for victim in range(len(tasks)):
                w, wit = worst_response(tasks, fifo_key, victim, rng, H, tries=2 if ctx.tier == "quick" else 4)
                ctx.oracle("no_schedule_exceeds_the_bound", w <= R,
                           "FIFO analysis returns Ok(%d) but a legal FIFO schedule has a job of task %d with response time %d" % (R, victim, w), [q],
                           cls="oracle:unsafe", extra=dict(witness=wit))
        finalize(ctx)

# ============================================================================= C01 / C02 / C18
def gen_fp_system(rng, abkinds, exact=False):
    """tua, hp tasks, lp tasks (with segment lengths); returns dict"""
    tua, hp = families.gen_ded_system(rng, abkinds)
    nlp = rng.choice([0, 1, 1, 2])
    lp = []
    for _ in range(nlp):
        ab = gen.gen_ab(rng, 0, ["periodic", "sporadic"], True)
        Cl = rng.randint(1, 8)
        lp.append(dict(ab=ab, C=Cl, seg=rng.choice([1, Cl, rng.randint(1, Cl)])))
    return dict(tua=tua, hp=hp, lp=lp)

def fp_variant_setup(variant, S, rng):
    """returns (query, task list for the simulator [hp..., tua, lp...], victim index, shift for non-lp tasks)"""
    tua, hp, lp = S["tua"], S["hp"], S["lp"]
    C = tua[2][1]; ab = tua[1]
    limit = families.pick_limit(rng)
    tasks = []
    for h in hp: tasks.append(dict(ab=h[1], C=h[2][1], pps=sim.pps_full_preemptive, shift=1))
    vi = len(tasks)
    if variant == "fp_fp":
        B = 0; q = ["fp_fp", tua, hp, limit]
        tasks.append(dict(ab=ab, C=C, pps=sim.pps_full_preemptive, shift=1))
        for l in lp: tasks.append(dict(ab=l["ab"], C=l["C"], pps=sim.pps_full_preemptive, shift=0))
    elif variant == "fp_np":
        B = max([l["C"] for l in lp], default=1) - 1; q = ["fp_np", ab, C, B, hp, limit]
        for t in tasks: t["pps"] = sim.pps_nonpreemptive
        tasks.append(dict(ab=ab, C=C, pps=sim.pps_nonpreemptive, shift=1))
        for l in lp: tasks.append(dict(ab=l["ab"], C=l["C"], pps=sim.pps_nonpreemptive, shift=0))
    elif variant == "fp_lp":
        B = max([l["seg"] for l in lp], default=1) - 1
        last = rng.choice([1, C, rng.randint(1, C)]); q = ["fp_lp", ab, C, last, B, hp, limit]
        pre = rng.choice([1, 2, C])
        # fixed preemption points: a job of cost c <= C keeps the task's last segment (Prosa's model)
        tasks.append(dict(ab=ab, C=C, pps=(lambda c, last=last, pre=pre: sim.pps_segments(c, pre, last)), shift=1))
        for l in lp: tasks.append(dict(ab=l["ab"], C=l["C"], pps=(lambda c, s=l["seg"]: sim.pps_segments(c, s)), shift=0))
    else:
        B = max([l["seg"] for l in lp], default=1) - 1; q = ["fp_fnp", tua, B, hp, limit]
        tasks.append(dict(ab=ab, C=C, pps=sim.pps_full_preemptive, shift=1))
        for l in lp: tasks.append(dict(ab=l["ab"], C=l["C"], pps=(lambda c, s=l["seg"]: sim.pps_segments(c, s)), shift=0))
    # only the lower-priority task that can block longest is released one slot early; the others later
    if lp:
        key = (lambda l: l["C"]) if variant == "fp_np" else (lambda l: min(l["seg"], l["C"]))
        worst = max(range(len(lp)), key=lambda x: key(lp[x]))
        for x in range(len(lp)):
            if x != worst: tasks[vi + 1 + x]["shift"] = 2 + x
    return q, tasks, vi

def fp_key(jobs, victim):
    return lambda k: (jobs[k]["task"], jobs[k]["arr"], k)      # task index order = priority order (hp..., tua, lp...)

class _SchedProp(Prop):
    variants = []
    def victim_shifts(self, rng, tier): return []
    def setup(self, variant, rng): raise NotImplementedError
    def run(self, ctx):
        rng = ctx.rng
        cases = []
        for _ in range(ctx.scale(self.nquick, self.nthorough)):
            v = rng.choice(self.variants)
            cases.append((v,) + self.setup(v, rng))
        rows = ctx.run([c[1] for c in cases])
        ctx.correspond(rows, relation=self.relation)
        for (v, q, tasks, vi, keyf), (_, dv, rv, mv) in zip(cases, rows):
            ctx.dist("variant", v)
            if not dv or dv[0] != "ok": ctx.dist("outcome", dv[0] if dv else "none"); continue
            ctx.dist("outcome", "ok")
            R = min(dv[1], rv[1]) if rv and rv[0] == "ok" else dv[1]
            H = min(300, 3 * q[-1] + 20) if q[-1] < 1500 else 1000       # long busy windows (Lehoczky-style systems): look further
            w, wit = worst_response(tasks, keyf, vi, rng, H, tries=2 if ctx.tier == "quick" else 4)
            # the critical instant of EDF (and of jittered FP) is not synchronous: also release the analysed task
            # with an offset relative to the others
            base_shift = tasks[vi].get("shift", 0)
            for s_ in self.victim_shifts(rng, ctx.tier):
                tasks[vi]["shift"] = base_shift + s_
                w2, wit2 = worst_response(tasks, keyf, vi, rng, H, tries=1)
                if w2 > w: w, wit = w2, wit2
            tasks[vi]["shift"] = base_shift
            self.judge(ctx, v, q, R, w, wit)
        # targeted stream, correspondence first; only cases on which the implementation is below the model are simulated
        extra = self.extra_cases(ctx)
        if extra:
            rows = ctx.run([c[1] for c in extra])
            ctx.correspond(rows, relation=self.relation)
            for (v, q, tasks, vi, keyf), (_, dv, rv, mv) in zip(extra, rows):
                ctx.dist("variant", v + ":targeted")
                if not (dv and mv and dv[0] == "ok" and mv[0] == "ok" and dv[1] < mv[1]): continue
                w, wit = worst_response(tasks, keyf, vi, rng, 1200, tries=3)
                self.judge(ctx, v, q, dv[1], w, wit)
        finalize(ctx)
    def extra_cases(self, ctx): return []

@register("C01")
class C01(_SchedProp):
    rule = ("systems of higher-priority tasks, the task under analysis and lower-priority tasks (segment layouts), blocking bound = longest "
            "lower-priority segment - 1; the four FP analyses; correspondence one-sided (at least as pessimistic as the model); oracle = "
            "independent fixed-priority scheduler with the matching preemption model: lower-priority blockers released one slot early, "
            "synchronous maximal-rate releases, random compliant releases, shortened execution times; non-trivial = distinct query "
            "whose result is not Ok(0)")
    proof_status = "see coverage.theorems"
    variants = ["fp_fp", "fp_np", "fp_lp", "fp_fnp"]
    relation = "one"; nquick = 320; nthorough = 4000
    def setup(self, v, rng):
        S = gen_fp_system(rng, ["periodic", "sporadic", "curve", "extrap", "propagated", "jitter"])
        r = rng.random()
        if r < 0.45:
            ts = families.gen_dense_system(rng); S["tua"] = ts[0]; S["hp"] = ts[1:]
        elif r < 0.55: self.lehoczky(S, rng)
        q, tasks, vi = fp_variant_setup(v, S, rng)
        if 0.45 <= r < 0.55: q[-1] = rng.randint(2500, 6000)
        return q, tasks, vi, fp_key
    @staticmethod
    def lehoczky(S, rng):
        # Lehoczky-style arbitrary-deadline systems: utilisation close to 1, the analysed task fills more than half of its
        # period, so its busy window spans many of its own jobs and the per-offset bounds dip and rise again
        T = rng.randint(40, 120); C = max(2, int(T * rng.uniform(0.5, 0.7)))
        Th = max(3, int(T * rng.uniform(0.4, 0.95))); U = rng.uniform(0.96, 0.999)
        Ch = max(1, int(Th * (U - C / T)))
        S["tua"] = ["rbf", ["periodic", T], ["scalar", C]]; S["hp"] = [["rbf", ["periodic", Th], ["scalar", Ch]]]; S["lp"] = S["lp"][:1]
    def extra_cases(self, ctx):
        rng = ctx.rng; out = []
        for _ in range(ctx.scale(400, 3000)):
            v = rng.choice(self.variants)
            S = gen_fp_system(rng, ["periodic", "sporadic"]); self.lehoczky(S, rng)
            q, tasks, vi = fp_variant_setup(v, S, rng); q[-1] = rng.randint(2500, 6000)
            out.append((v, q, tasks, vi, fp_key))
        return out
    def judge(self, ctx, v, q, R, w, wit):
        ctx.oracle("no_schedule_exceeds_the_bound", w <= R, "%s returns Ok(%d) but a legal schedule has a job of the analysed task with response time %d" % (v, R, w),
                   [q], cls="oracle:unsafe:" + v, extra=dict(witness=wit))

def gen_edf_system(rng, abkinds):
    tua, others = families.gen_ded_system(rng, abkinds)
    dl = lambda: rng.choice([rng.randint(1, 20), rng.randint(10, 80), rng.randint(50, 200)])
    D = dl(); same = rng.random() < 0.25
    return dict(tua=tua, others=others, D=D, od=[D if same else dl() for _ in others])

def edf_variant_setup(variant, S, rng):
    tua, others, D, od = S["tua"], S["others"], S["D"], S["od"]
    C = tua[2][1]; ab = tua[1]; limit = families.pick_limit(rng)
    segs = [rng.choice([1, o[2][1], rng.randint(1, o[2][1])]) for o in others]
    tasks = []; dls = []
    vi = 0
    if variant == "edf_fp":
        q = ["edf_fp", [tua, D], [[o, d] for o, d in zip(others, od)], limit]
        tasks.append(dict(ab=ab, C=C, pps=sim.pps_full_preemptive, shift=1)); dls.append(D)
        for o, d in zip(others, od): tasks.append(dict(ab=o[1], C=o[2][1], pps=sim.pps_full_preemptive, shift=1)); dls.append(d)
    elif variant == "edf_np":
        q = ["edf_np", [ab, C, D], [[o[1], o[2][1], d] for o, d in zip(others, od)], limit]
        tasks.append(dict(ab=ab, C=C, pps=sim.pps_nonpreemptive, shift=1)); dls.append(D)
        for o, d in zip(others, od): tasks.append(dict(ab=o[1], C=o[2][1], pps=sim.pps_nonpreemptive, shift=rng.choice([0, 1]))); dls.append(d)
    elif variant == "edf_lp":
        last = rng.choice([1, C, rng.randint(1, C)])
        q = ["edf_lp", [ab, C, D, last], [[o, d, s] for o, d, s in zip(others, od, segs)], limit]
        pre = rng.choice([1, 2, C])
        tasks.append(dict(ab=ab, C=C, pps=(lambda c, last=last, pre=pre: sim.pps_segments(c, pre, last)), shift=1)); dls.append(D)
        for o, d, s in zip(others, od, segs): tasks.append(dict(ab=o[1], C=o[2][1], pps=(lambda c, s=s: sim.pps_segments(c, s)), shift=rng.choice([0, 1]))); dls.append(d)
    else:
        q = ["edf_fnp", [tua, D], [[o, d, s] for o, d, s in zip(others, od, segs)], limit]
        tasks.append(dict(ab=ab, C=C, pps=sim.pps_full_preemptive, shift=1)); dls.append(D)
        for o, d, s in zip(others, od, segs): tasks.append(dict(ab=o[1], C=o[2][1], pps=(lambda c, s=s: sim.pps_segments(c, s)), shift=rng.choice([0, 1]))); dls.append(d)
    keyf = lambda jobs, victim, dls=dls: (lambda k: (jobs[k]["arr"] + dls[jobs[k]["task"]], 1 if jobs[k]["task"] == victim else 0, k))
    return q, tasks, vi, keyf

@register("C02")
class C02(_SchedProp):
    rule = ("EDF task sets with relative deadlines below/equal/above the periods, equal deadlines (adversarial tie-breaking: the analysed "
            "task loses every tie), segment layouts; the four EDF analyses; correspondence one-sided; oracle = independent EDF scheduler "
            "with the matching preemption model on synchronous maximal-rate, shifted and random compliant releases; non-trivial = distinct "
            "query whose result is not Ok(0)")
    proof_status = "see coverage.theorems"
    variants = ["edf_fp", "edf_np", "edf_lp", "edf_fnp"]
    def victim_shifts(self, rng, tier):
        return [1, 2, 3, 4, 5, 7, 9, 12, 16] + [rng.randint(1, 40) for _ in range(3 if tier == "quick" else 12)]
    relation = "one"; nquick = 500; nthorough = 5000
    def setup(self, v, rng):
        if rng.random() < 0.5:
            ts = families.gen_dense_system(rng)
            dl = lambda rb: rng.choice([rng.randint(rb[2][1], max(rb[2][1], rb[1][1])), rng.randint(rb[2][1], 2 * rb[1][1] + 2)])
            S = dict(tua=ts[0], others=ts[1:], D=dl(ts[0]), od=[dl(o) for o in ts[1:]])
        else:
            S = gen_edf_system(rng, ["periodic", "sporadic", "curve", "extrap", "propagated", "jitter"])
        if rng.random() < 0.12:
            # a task that never releases a job, listed BEFORE a heavy task with a long relative deadline (a pure blocker for the
            # short-deadline task under analysis): bookkeeping that pairs tasks with per-task data by position must survive filtering
            C = S["tua"][2][1]
            S["D"] = rng.randint(C, C + 8)
            blk = ["rbf", ["sporadic", rng.randint(60, 200), 0], ["scalar", rng.randint(4, 12)]]
            nev = ["rbf", ["never"], ["scalar", rng.randint(1, 9)]]
            S["others"] = [nev, blk] + S["others"][:1]
            S["od"] = [rng.randint(1, S["D"]), S["D"] + rng.randint(10, 60)] + S["od"][:1]
        return edf_variant_setup(v, S, rng)
    def judge(self, ctx, v, q, R, w, wit):
        ctx.oracle("no_schedule_exceeds_the_bound", w <= R, "%s returns Ok(%d) but a legal EDF schedule has a job of the analysed task with response time %d" % (v, R, w),
                   [q], cls="oracle:unsafe:" + v, extra=dict(witness=wit))

def burst_prefix(rng):
    """delta-min prefix of a periodic burst pattern (b jobs g apart, every P), truncated to 2..7 entries"""
    b = rng.randint(2, 3); g = rng.randint(0, 2); P = rng.randint(8, 25) + (b - 1) * g
    tr = [k * P + i * g for k in range(6) for i in range(b)]
    d = gen.dmin_of_trace(tr, rng.randint(2, 7))
    return d if d and d[-1] > 0 else [g + 1, P, P + g + 1]

@register("C18")
class C18(Prop):
    rule = ("task sets over exact realisable curves only (periodic, sporadic with jitter, extrapolating super-additive delta-min curves); "
            "fully preemptive FP, fully non-preemptive FP (blocker of cost B+1 released one slot early) and FIFO; correspondence two-sided; "
            "oracle = the synchronous maximal-rate schedule in the independent scheduler must ATTAIN the bound; non-trivial = distinct "
            "query whose result is not Ok(0)")
    proof_status = "see coverage.theorems"
    def run(self, ctx):
        rng = ctx.rng
        cases = []
        for _ in range(ctx.scale(260, 3500)):
            v = rng.choice(["fp_fp", "fp_np", "fifo"])
            if v == "fifo":
                tua, others = families.gen_ded_system(rng, families.AB_EXACT)
                ts = [tua] + others
                q = ["fifo", ["agg", ts], families.pick_limit(rng)]
                cases.append((v, q, tasks_from_rbs(ts), None, fifo_key))
            else:
                S = gen_fp_system(rng, families.AB_EXACT)
                if v == "fp_np":
                    for l in S["lp"]: l["ab"] = ["periodic", 100000]          # one blocking job only
                if S["hp"] and rng.random() < 0.35:
                    # bursty higher-priority task given by a short delta-min prefix (odd and even lengths): the analysis window
                    # reaches beyond the prefix, so the on-demand super-additive extrapolation decides the bound
                    h = rng.randrange(len(S["hp"]))
                    S["hp"][h] = ["rbf", ["extrap", ["dmin", burst_prefix(rng)]], ["scalar", rng.randint(1, 3)]]
                    S["tua"] = ["rbf", ["periodic", rng.randint(80, 300)], ["scalar", rng.randint(4, 14)]]
                q, tasks, vi = fp_variant_setup(v, S, rng)
                cases.append((v, q, tasks, vi, fp_key))
        rows = ctx.run([c[1] for c in cases])
        ctx.correspond(rows)
        for (v, q, tasks, vi, keyf), (_, dv, rv, mv) in zip(cases, rows):
            ctx.dist("variant", v)
            if not dv or dv[0] != "ok" or dv[1] == 0: ctx.dist("outcome", dv[0] if dv else "none"); continue
            ctx.dist("outcome", "ok")
            R = dv[1]
            H = min(400, 3 * q[-1] + 20)
            victims = range(len(tasks)) if vi is None else [vi]
            best = 0; wit = None
            for victim in victims:
                jobs = build_jobs(tasks, rng, H, True, victim)
                done = sim.simulate(jobs, keyf(jobs, victim), H + sum(j["cost"] for j in jobs) + 2)
                for k, j in enumerate(jobs):
                    if j["task"] == victim and done[k] is not None and done[k] - j["arr"] > best and j["arr"] < H:
                        best = done[k] - j["arr"]; wit = dict(job=(j["task"], j["arr"], j["cost"]), response=best)
            ctx.oracle("bound_is_attained", best == R, "%s returns Ok(%d) but the worst response time in the synchronous maximal-rate schedule is %d (%s)" %
                       (v, R, best, "UNSAFE" if best > R else "not tight"), [q], cls=("oracle:unsafe:" if best > R else "oracle:not_tight:") + v, extra=dict(witness=wit))
        finalize(ctx)

# ============================================================================= C17
def rle(a, b):
    """a is at most as pessimistic as b"""
    if a is None or b is None: return True
    if a[0] == "ok": return (b[0] == "ok" and a[1] <= b[1]) or b[0] == "err"
    if a[0] == "err": return b[0] == "err"
    return True

def harden_ab(ab, rng):
    """a single-parameter hardening of an arrival bound: more jitter or a shorter period"""
    k = ab[0]
    if k == "periodic":
        return (["periodic", max(1, ab[1] - rng.randint(1, 3))], "period-") if rng.random() < 0.5 else (["sporadic", ab[1], rng.randint(1, 10)], "jitter+")
    if k == "sporadic":
        return (["sporadic", max(1, ab[1] - rng.randint(1, 3)), ab[2]], "period-") if rng.random() < 0.5 else (["sporadic", ab[1], ab[2] + rng.randint(1, 10)], "jitter+")
    return (["jitter", rng.randint(1, 10), ab], "jitter+")

def harden_rb(rb, rng):
    ab, cm = rb[1], rb[2]
    if rng.random() < 0.4: return ["rbf", ab, ["scalar", cm[1] + rng.randint(1, 3)]], "wcet+"
    ab2, how = harden_ab(ab, rng)
    return ["rbf", ab2, cm], how

def harden_query(q, rng):
    """returns (hardened query, what) — exactly one parameter made harder"""
    import copy
    h = copy.deepcopy(q); k = q[0]
    extra = lambda: ["rbf", gen.gen_sporadic(rng), ["scalar", rng.randint(1, 4)]]
    r = rng.random()
    if k in ("fp_fp", "fp_fnp", "fp_np", "fp_lp"):
        hpi = {"fp_fp": 2, "fp_fnp": 3, "fp_np": 4, "fp_lp": 5}[k]
        if r < 0.2: h[-1] = q[-1] + rng.randint(1, 200); return h, "limit+"
        if r < 0.4 and k != "fp_fp":
            bi = {"fp_fnp": 2, "fp_np": 3, "fp_lp": 4}[k]; h[bi] += rng.randint(1, 4); return h, "blocking+"
        if r < 0.55: h[hpi] = q[hpi] + [extra()]; return h, "add_task"
        if r < 0.8 and q[hpi]:
            i = rng.randrange(len(q[hpi])); h[hpi][i], how = harden_rb(q[hpi][i], rng); return h, "hp:" + how
        if k in ("fp_fp", "fp_fnp"): h[1], how = harden_rb(q[1], rng); return h, "tua:" + how
        if rng.random() < 0.5 and k == "fp_np": h[2] += rng.randint(1, 3); return h, "tua:wcet+"
        h[1], how = harden_ab(q[1], rng); return h, "tua:" + how
    if k.startswith("edf_"):
        if r < 0.2: h[-1] = q[-1] + rng.randint(1, 200); return h, "limit+"
        if r < 0.4:
            o = [gen.gen_sporadic(rng), rng.randint(1, 4), rng.randint(1, 100)]
            if k == "edf_np": h[2] = q[2] + [o]
            elif k == "edf_fp": h[2] = q[2] + [[["rbf", o[0], ["scalar", o[1]]], o[2]]]
            else: h[2] = q[2] + [[["rbf", o[0], ["scalar", o[1]]], o[2], rng.randint(1, o[1])]]
            return h, "add_task"
        if r < 0.75 and q[2]:
            i = rng.randrange(len(q[2]))
            if k == "edf_np":
                if rng.random() < 0.5: h[2][i][1] += rng.randint(1, 3); return h, "other:wcet+"
                h[2][i][0], how = harden_ab(q[2][i][0], rng); return h, "other:" + how
            if k in ("edf_lp", "edf_fnp") and rng.random() < 0.3: h[2][i][2] += rng.randint(1, 4); return h, "other:segment+"
            h[2][i][0], how = harden_rb(q[2][i][0], rng); return h, "other:" + how
        if k in ("edf_fp", "edf_fnp"): h[1][0], how = harden_rb(q[1][0], rng); return h, "tua:" + how
        if rng.random() < 0.5 and k == "edf_np": h[1][1] += rng.randint(1, 3); return h, "tua:wcet+"
        h[1][0], how = harden_ab(q[1][0], rng); return h, "tua:" + how
    if k == "fifo":
        if r < 0.25: h[-1] = q[-1] + rng.randint(1, 200); return h, "limit+"
        if r < 0.5: h[1] = ["agg", q[1][1] + [extra()]]; return h, "add_task"
        i = rng.randrange(len(q[1][1])); h[1][1][i], how = harden_rb(q[1][1][i], rng); return h, how
    # ROS 2
    def weaker(sb):
        if sb[0] == "dedicated": P = rng.randint(2, 10); return ["periodic_s", P - 1, P]
        if sb[0] == "periodic_s": return ["periodic_s", sb[1] - 1, sb[2]] if sb[1] > 1 else ["periodic_s", sb[1], sb[2] + 1]
        if sb[0] == "constrained_s": return ["constrained_s", sb[1] - 1, sb[2], sb[3]] if sb[1] > 1 else ["constrained_s", sb[1], sb[2], sb[3] + 1]
        return sb
    if r < 0.2: h[-1] = q[-1] + rng.randint(1, 300); return h, "limit+"
    if r < 0.5: h[1] = weaker(q[1]); return h, "supply-"
    if k == "es":
        if r < 0.75: h[2] = ["agg", q[2][1] + [extra()]]; return h, "add_callback"
        i = rng.randrange(len(q[2][1])); h[2][1][i], how = harden_rb(q[2][1][i], rng); return h, how
    if k in ("timer", "pp"):
        if k == "timer" and r < 0.58: h[4] += rng.randint(1, 4); return h, "blocking+"
        if r < 0.7: h[3] = ["agg", q[3][1] + [extra()]]; return h, "add_callback"
        if r < 0.85 and q[2][2][0] == "scalar": h[2], how = harden_rb(q[2], rng); return h, "own:" + how
        if q[3][1]:
            i = rng.randrange(len(q[3][1])); h[3][1][i], how = harden_rb(q[3][1][i], rng); return h, "intf:" + how
        h[3] = ["agg", [extra()]]; return h, "add_callback"
    if k == "chain":
        scalar = q[2][2][0] == "scalar" and all(x[2][0] == "scalar" for x in q[3][1])
        if r < 0.7 or not scalar: h[5] = ["agg", q[5][1] + [extra()]]; return h, "add_callback"
        if r < 0.8:        # a larger WCET of the last callback or of a prefix callback
            pre = h[3][1]
            if pre and rng.random() < 0.5:
                i = rng.randrange(len(pre)); pre[i] = ["rbf", pre[i][1], ["scalar", pre[i][2][1] + rng.randint(1, 3)]]
            else: h[2] = ["rbf", q[2][1], ["scalar", q[2][2][1] + rng.randint(1, 3)]]
            h[4] = ["agg", h[3][1] + [h[2]]]; return h, "chain:wcet+"
        ab2, how = harden_ab(q[2][1], rng)          # the source's arrival curve, consistently for every callback of the chain
        h[2] = ["rbf", ab2, q[2][2]]; h[3] = ["agg", [["rbf", ab2, x[2]] for x in q[3][1]]]; h[4] = ["agg", h[3][1] + [h[2]]]
        return h, "chain:" + how
    if k in ("rr", "bw"):
        wl = h[2]; eoc = q[3][-1]
        cand = [i for i in range(len(wl)) if i != eoc]
        if r < 0.62 or not cand:
            wl.append([rng.randint(1, 20), gen.gen_sporadic(rng), ["scalar", rng.randint(1, 4)], families.gen_kind(rng)]); return h, "add_callback"
        if r < 0.8:          # the arrival curve of any callback (the analysed one included): more jitter / a shorter period
            i = rng.randrange(len(wl)); wl[i][1], how = harden_ab(wl[i][1], rng); return h, ("eoc:" if i == eoc else "other:") + how
        if r < 0.86 and wl[eoc][2][0] == "scalar": wl[eoc][2] = ["scalar", wl[eoc][2][1] + rng.randint(1, 3)]; return h, "eoc:wcet+"
        i = rng.choice(cand)
        if rng.random() < 0.5 and wl[i][2][0] == "scalar": wl[i][2] = ["scalar", wl[i][2][1] + rng.randint(1, 3)]; return h, "other:wcet+"
        wl[i][0] += rng.randint(1, 10); return h, "other:assumed_bound+"
    return h, "none"

@register("C17")
class C17(Prop):
    rule = ("pairs (base system, one single-parameter hardening: WCET+, jitter+, period-, blocking+, segment+, added task/callback, weaker "
            "supply, assumed bound+, limit+) for the nine dedicated-processor analyses and the ROS 2 analyses with scalar costs; relation "
            "on the implementation's two results (never smaller, never Err->Ok; limit+ keeps Ok unchanged); non-trivial = distinct query "
            "whose result is not Ok(0)")
    proof_status = "see coverage.theorems"
    def run(self, ctx):
        rng = ctx.rng
        qs = []; meta = []
        def ded_base(tight):
            # dense task sets (small periods, jitter, deadlines around the periods, busy windows spanning many releases) for 40 %
            if rng.random() < 0.4:
                q = families.q_dense(rng)[0]
                if rng.random() < tight: q[-1] = rng.randint(1, 40)
                return q
            return gen_ded_queries(rng, 1, ["periodic", "sporadic", "curve", "extrap", "propagated", "jitter"], tight)[0]
        n = ctx.scale(320, 5000)
        while len(meta) < n:
            r = rng.random()
            if r < 0.7: base = ded_base(0.3)
            elif r < 0.8: base = families.q_ecrts(rng, None, True)[0]
            else: base = families.q_rtss(rng, None, True)[0]
            hard, how = harden_query(base, rng)
            if how == "none": continue
            qs += [base, hard]; meta.append(how)
        rows = ctx.run(qs)
        ctx.correspond(rows)
        # a larger stream of pairs evaluated by the implementation only (no Coq evaluation)
        qs2 = []
        n2 = ctx.scale(2500, 30000)
        while len(qs2) < 2 * n2:
            r = rng.random()
            if r < 0.62: base = ded_base(0.3)
            elif r < 0.77: base = families.q_ecrts(rng, None, True)[0]
            else:
                base = families.q_rtss(rng, None, True)[0]
                if rng.random() < 0.5:          # polled callbacks with pairwise distinct KNOWN priorities (the +1 / +[higher priority] terms)
                    pr = list(range(len(base[2]))); rng.shuffle(pr)
                    for cb_, p_ in zip(base[2], pr):
                        if cb_[3] != "timer" and cb_[3] != "es": cb_[3] = ["p", p_]
            hard, how = harden_query(base, rng)
            if how == "none": continue
            qs2 += [base, hard]; meta.append(how)
        # non-scalar cost model of the analysed callback in the ECRTS'19 analyses: raising one frame's WCET (known finding
        # C17-least-wcet: the witnesses first, then random frame vectors)
        mf = lambda fr: ["rbf", ["periodic", 3], ["multiframe", fr]]
        intf = ["agg", [["rbf", ["sporadic", 5, 2], ["scalar", 2]]]]
        chain = lambda fr: ["chain", ["dedicated"], mf(fr), ["agg", []], ["agg", [["agg", []], mf(fr)]], intf, 100]
        qs3 = [["pp", ["dedicated"], mf([2, 1, 1]), intf, 100], ["pp", ["dedicated"], mf([2, 2, 1]), intf, 100],
               ["timer", ["dedicated"], mf([2, 1, 1]), intf, 0, 100], ["timer", ["dedicated"], mf([2, 2, 1]), intf, 0, 100],
               chain([2, 1, 1]), chain([2, 2, 1])]
        meta += ["frame+"] * 3
        for _ in range(ctx.scale(150, 2000)):
            base = families.q_ecrts(rng, rng.choice(["timer", "pp"]), True)[0]
            fr = [rng.randint(1, 4) for _ in range(rng.randint(2, 3))]
            fr2 = list(fr); fr2[rng.randrange(len(fr))] += rng.randint(1, 2)
            hard = [x for x in base]
            base[2] = ["rbf", base[2][1], ["multiframe", fr]]; hard[2] = ["rbf", base[2][1], ["multiframe", fr2]]
            qs3 += [base, hard]; meta.append("frame+")
        rows = rows + ctx.run(qs2, model=False) + ctx.run(qs3[:6]) + ctx.run(qs3[6:], model=False)
        for i, how in enumerate(meta):
            a, b = rows[2 * i], rows[2 * i + 1]
            ctx.dist("hardening", how); ctx.dist("analysis", a[0][0])
            for name, x, y in (("debug", a[1], b[1]), ("release", a[2], b[2])):
                if x is None or y is None or x[0] == "panic" or y[0] == "panic": continue
                if how == "limit+":
                    ok = (x[0] != "ok") or (y == x)
                    ctx.oracle("ok_is_limit_independent", ok, "%s: raising the limit changes %s to %s" % (a[0][0], rta.show(x), rta.show(y)), [a[0], b[0]], cls="oracle:limit:" + a[0][0])
                else:
                    ctx.oracle("harder_is_never_more_optimistic", rle(x, y), "%s (%s build): hardening '%s' turns %s into %s" % (a[0][0], name, how, rta.show(x), rta.show(y)),
                               [a[0], b[0]], cls="oracle:monotone:" + a[0][0] + ":" + how.split(":")[-1])
        finalize(ctx)

# ============================================================================= C20
def query_has_prefix(q):
    s = sx(q)
    return "(prefix " in s or "(of_prefix" in s or "(prefix_from" in s

@register("C20")
class C20(Prop):
    rule = ("every public entry point (arrival/cost/demand/supply queries, fixed-point search, nine dedicated analyses, six ROS 2 analyses) on "
            "well-formed generated inputs, in a checked build (debug assertions + overflow checks) and in an optimised release build; outcome "
            "(value / panic / hang) must be a value, identical in both profiles and equal to the model; non-trivial = distinct query whose "
            "result is not 0/empty")
    proof_status = "see coverage.theorems"
    def run(self, ctx):
        rng = ctx.rng
        qs = []
        n = ctx.scale(60, 900)
        for _ in range(n):
            qs += families.q_arrival(rng, ["periodic", "sporadic", "never", "curve", "extrap", "propagated", "jitter", "sum", "sum2"], True, True)
            qs += families.q_cost(rng) + families.q_demand(rng) + families.q_supply(rng) + families.q_search(rng)[:1]
            qs += families.q_hist(rng) + families.q_chist(rng)
        for _ in range(ctx.scale(60, 900)):
            qs += families.q_curve(rng)        # Curve through every public constructor / extrapolation entry point
        for _ in range(ctx.scale(220, 3000)):
            qs += families.q_ded(rng)
        for _ in range(ctx.scale(200, 3000)):
            qs += families.q_ros(rng)
        # sparse arrival processes as the task under analysis: ApproximatedPoisson with number_arrivals(1) = 0 (outside the Coq model:
        # implementation only, both profiles) -- the curve does not step at delta = 1, so offsets contributed by OTHER tasks meet no
        # demand of the analysed task (repaired defect: fix for NP/LP-EDF truncated subtraction)
        for _ in range(ctx.scale(50, 600)):
            w = rng.choice(["fp_np", "fp_lp", "edf_np", "edf_lp", None])       # mostly the variants that subtract a remaining cost
            q = families.q_ded(rng)[0] if w is None else (families.q_fp(rng, w)[0] if w.startswith("fp") else families.q_edf(rng, w)[0])
            ap = ["apoisson", rng.randint(1, 30), rng.choice([1000, 10000]), 1, rng.choice([100, 1000])]
            k = q[0]
            if k in ("fp_fp", "fp_fnp"): q[1] = ["rbf", ap, q[1][2]]
            elif k in ("fp_np", "fp_lp"): q[1] = ap; q[2] = max(2, q[2])
            elif k in ("edf_fp", "edf_fnp"): q[1][0] = ["rbf", ap, q[1][0][2]]
            elif k in ("edf_np", "edf_lp"): q[1][0] = ap; q[1][1] = max(2, q[1][1])
            else: continue
            q[-1] = rng.randint(200, 600)
            qs.append(q)
        # witnesses of the known finding (ArrivalCurvePrefix inside an analysis)
        pf = ["prefix", ["steps", 10, [[1, 1], [5, 2]]]]
        wit = [["fifo", ["agg", [["rbf", pf, ["scalar", 2]]]], 100],
               ["fp_fp", ["rbf", pf, ["scalar", 2]], [], 100],
               ["edf_fp", [["rbf", ["sporadic", 10, 0], ["scalar", 2]], 10], [[["rbf", pf, ["scalar", 1]], 12]], 100],
               ["es", ["dedicated"], ["agg", [["rbf", pf, ["scalar", 2]]]], 100]]
        qs += wit
        # corpus: the inputs of the crate's own unit tests and one sample per form of the case language
        cp = os.path.join(rta.VERIF, "corpus", "crate_tests_and_samples.cases")
        if os.path.exists(cp):
            for line in open(cp):
                line = line.strip()
                if line and not line.startswith("#"): qs.append(rta.parse(line))
        rows = ctx.run(qs)
        ctx.correspond(rows)
        for (q, dv, rv, mv) in rows:
            cls = "oracle:profile"
            if query_has_prefix(q) and q[0] in ("fifo", "fp_fp", "fp_np", "fp_lp", "fp_fnp", "edf_fp", "edf_np", "edf_lp", "edf_fnp", "es", "timer", "pp", "chain", "rr", "bw", "stepoff"):
                cls = "oracle:profile:prefix_in_analysis"      # fixed by ebafd38 (a fixed entry suppresses nothing)
            ctx.dist("entry_point", q[0])
            good = dv is not None and rv is not None and dv[0] not in ("panic", "timeout", "crash", "bad") and rv[0] not in ("panic", "timeout", "crash", "bad") and dv == rv
            ctx.oracle("total_and_profile_independent", good,
                       "%s: checked build -> %s, release build -> %s" % (q[0], rta.show(dv)[:80], rta.show(rv)[:80]), [q], cls=cls)
        finalize(ctx)
KNOWN_PREDICATES["C20-prefix-zero-step"] = lambda v: v.get("cls") == "oracle:profile:prefix_in_analysis" or (v["kind"] == "corr" and v.get("queries") and query_has_prefix(v["queries"][0]))

# ============================================================================= C07 (python exhaustive evaluators for the ROS 2 analyses, scalar costs)
def least_sol(sbf, limit, off, w):
    if limit == 0: return None
    for r in range(0, limit + 1):
        if w(max(r, 1)) <= sbf(off + r): return r
    return None

def inv_scan(sbf, d, bound=200000):
    t = 0
    while sbf(t) < d and t < bound: t += 1
    return t

def exh_ecrts(sbf, limit, bw_rhs, rhs, offsets=None, inclusive=True):
    mb = least_sol(sbf, limit, 0, bw_rhs)
    if mb is None: return ("err", 0, limit)
    best = 0
    rng_ = range(0, mb + 1) if offsets is None else [A for A in offsets if A <= mb]
    for A in rng_:
        r = least_sol(sbf, limit, A, lambda x: rhs(A, x))
        if r is None: return ("err", A, limit)
        best = max(best, r)
    return ("ok", best)

def rb_leaf_tables(rb):
    """flatten an rb into its leaves [(ab, cm)]"""
    if rb[0] == "rbf": return [(rb[1], rb[2])]
    if rb[0] == "boxed": return rb_leaf_tables(rb[1])
    out = []
    for x in rb[1]: out += rb_leaf_tables(x)
    return out

class TabPool:
    """collects natab/sbftab queries and resolves them after one batch run"""
    def __init__(self): self.qs = []; self.idx = {}
    def need(self, q):
        k = sx(q)
        if k not in self.idx: self.idx[k] = len(self.qs); self.qs.append(q)
        return k
    def resolve(self, rows):
        self.res = {sx(q): dv for (q, dv, rv, mv) in rows}
    def tab(self, k):
        v = self.res.get(k)
        return list(v[1]) if v and v[0] == "l" else None

def capped(selfk, intk, arrived, base):
    if selfk in ("timer", "es"): return arrived
    if selfk == "pu": return min(arrived, base + 1)
    if isinstance(intk, list): return min(arrived, base + (1 if selfk[1] < intk[1] else 0))
    return min(arrived, base + 1)

@register("C07")
class C07(Prop):
    rule = ("ROS 2 workloads with scalar costs under dedicated/periodic/constrained supplies: event source, timer, polling-point callback, "
            "processing chain (ECRTS'19), rr and bw subchain analyses (all four callback kinds, known/unknown priorities, singleton and longer "
            "subchains); oracle = naive evaluation over EVERY offset with linear-scan fixed points and the implementation's provided_service "
            "table only; non-trivial = distinct query whose result is not Ok(0)")
    proof_status = "see coverage.theorems"
    def run(self, ctx):
        rng = ctx.rng
        queries = []
        for _ in range(ctx.scale(110, 2500)): queries += families.q_ecrts(rng, None, rng.random() < 0.5)     # half with multiframe / curve costs
        for _ in range(ctx.scale(110, 2500)): queries += families.q_rtss(rng, None, True)
        # targeted: own callback with job-dependent costs (multiframe / cost curve) and short periods, so that several own
        # jobs fall into one response window and least_wcet_in_interval matters
        n_model = None
        for it in range(ctx.scale(160, 2000) + ctx.scale(2200, 20000)):
            if it == ctx.scale(160, 2000): n_model = len(queries)        # the queries from here on are implementation-only
            sb = families.gen_ros_sb(rng)
            T = rng.randint(4, 20)
            fr = [rng.randint(1, 4) for _ in range(rng.randint(2, 3))]
            cm = ["multiframe", fr] if rng.random() < 0.7 else ["ccurve", ["costs", gen.gen_costcurve(rng, 2)]]
            own = ["rbf", ["sporadic", T, rng.choice([0, rng.randint(0, T), rng.randint(T, 3 * T)])], cm]
            intf = ["agg", [["rbf", gen.gen_sporadic(rng), ["scalar", rng.randint(1, 4)]] for _ in range(rng.randint(1, 2))]]
            limit = rng.randint(40, 300)
            k = rng.choice(["timer", "pp", "chain"])
            if k == "timer": queries.append(["timer", sb, own, intf, rng.randint(0, 3), limit])
            elif k == "pp": queries.append(["pp", sb, own, intf, limit])
            else:
                pre = [["rbf", own[1], ["scalar", rng.randint(1, 3)]]]
                queries.append(["chain", sb, own, ["agg", pre], ["agg", pre + [own]], intf, limit])
        nonscalar_rtss = []
        for _ in range(ctx.scale(40, 800)): nonscalar_rtss += families.q_rtss(rng, None, False)                 # correspondence only
        # witness of the known finding C07-ecrts19-pruning
        queries.append(["pp", ["dedicated"], ["rbf", ["sporadic", 19, 0], ["scalar", 1]], ["agg", [["rbf", ["curve", ["dmin", [5, 8, 17, 24]]], ["scalar", 4]]]], 100])
        pool = TabPool(); need = []
        for q in queries:
            limit = q[-1]; H = 2 * limit + 80
            sbk = pool.need(["sbftab", q[1], H + 200])
            if q[0] in ("rr", "bw"):
                maxR = max(c[0] for c in q[2])
                ks = [pool.need(["natab", c[1], H + maxR + 2]) for c in q[2]]
                need.append((sbk, ks))
            else:
                rbs = [q[2]] if q[0] == "es" else [q[2], q[3]] if q[0] in ("timer", "pp") else [q[2], q[3], q[4], q[5]]
                ks = [[(pool.need(["natab", ab, H + 2]), cm) for ab, cm in rb_leaf_tables(rb)] for rb in rbs]
                need.append((sbk, ks))
        rows = ctx.run(queries[:n_model]) + ctx.run(queries[n_model:], model=False)
        trows = ctx.run(pool.qs, model=False, release=False)
        pool.resolve(trows)
        # second phase: the job costs of every leaf's cost model, as many as can arrive within the horizon
        pool2 = TabPool(); jck = {}
        for q, (sbk, ks) in zip(queries, need):
            if q[0] in ("rr", "bw"): continue
            for leafs in ks:
                for k, cm in leafs:
                    t = pool.tab(k)
                    if t is not None: jck[(k, sx(cm))] = pool2.need(["jobcosts", cm, max(t) + 1])
        pool2.resolve(ctx.run(pool2.qs, model=False, release=False))
        ctx.correspond(rows + ctx.run(nonscalar_rtss))
        for q, (sbk, ks), (_, dv, rv, mv) in zip(queries, need, rows):
            st = pool.tab(sbk)
            if st is None or dv is None: continue
            sbf = lambda d, st=st: st[d] if d < len(st) else st[-1]
            limit = q[-1]
            ctx.dist("analysis", q[0]); ctx.dist("supply", q[1][0])
            cls = "oracle:exhaustive:" + q[0]
            if q[0] in ("es", "timer", "pp", "chain"):
                fns = []
                ok = True
                for leafs in ks:
                    tabs = [(pool.tab(k), pool2.tab(jck.get((k, sx(cm)), ""))) for k, cm in leafs]
                    if any(t is None or jc is None for t, jc in tabs): ok = False; break
                    nat = lambda t, d: t[d] if d < len(t) else t[-1]
                    # service_needed = sum over leaves of the cost of the arrived jobs; least_wcet_in_interval = minimum over
                    # leaves of the least job cost among the arrived jobs (0 for a leaf without arrivals)
                    fns.append((lambda d, tabs=tabs: sum(sum(jc[:nat(t, d)]) for t, jc in tabs),
                                lambda d, tabs=tabs: min([(min(jc[:nat(t, d)]) if nat(t, d) > 0 else 0) for t, jc in tabs], default=0)))
                if not ok: continue
                if q[0] == "es":
                    dem = fns[0][0]
                    exp = exh_ecrts(sbf, limit, dem, lambda A, x: dem(A + 1))
                    steps = None
                else:
                    if q[0] == "timer":
                        own, ownlw = fns[0]; intf = fns[1][0]; B = q[4]
                        bw = lambda d: own(d) + B + intf(d)
                        ii = lambda A, x: (A + x - ownlw(A + x) + 1) if x > ownlw(A + x) else A + 1
                        rhs = lambda A, x: own(A + 1) + intf(ii(A, x)) + B
                        dem = own
                    elif q[0] == "pp":
                        own, ownlw = fns[0]; intf = fns[1][0]
                        bw = lambda d: own(d) + intf(d)
                        ii = lambda A, x: (A + x - ownlw(A + x) + 1) if x > ownlw(A + x) else A + 1
                        rhs = lambda A, x: own(A + 1) + intf(ii(A, x))
                        dem = own
                    else:
                        lastcb, lastlw = fns[0]; prefix = fns[1][0]; full = fns[2][0]; other = fns[3][0]
                        bw = lambda d: full(d) + other(d)
                        ii = lambda A, x: (A + x - lastlw(A + x) + 1) if x > lastlw(A + x) else A + 1
                        rhs = lambda A, x: lastcb(A + 1) + prefix(ii(A, x)) + other(ii(A, x))
                        dem = full
                    exp = exh_ecrts(sbf, limit, bw, rhs)
                    mb = least_sol(sbf, limit, 0, bw)
                    so = [A for A in range(0, (mb or 0) + 1) if dem(A) < dem(A + 1)]
                    exp_steps = exh_ecrts(sbf, limit, bw, rhs, offsets=so)
                    if dv == exp_steps and dv != exp: cls = "oracle:exhaustive:ecrts19_pruning"
                    elif dv != exp_steps: cls = "oracle:exhaustive:" + q[0] + ":differs_from_step_offset_maximum"
            else:
                wl = q[2]; sc = q[3]; eoc = sc[-1]
                tabs = [pool.tab(k) for k in ks]
                if any(t is None for t in tabs): continue
                na = [(lambda d, t=t: t[d] if d < len(t) else t[-1]) for t in tabs]
                C = [c[2][1] for c in wl]; R = [c[0] for c in wl]; kind = [c[3] for c in wl]
                mpp = sum(na[i](R[i]) for i in sc)
                cost = lambda i, n: C[i] * n
                if q[0] == "rr":
                    selfn = lambda s: max(0, na[eoc](max(0, s + R[eoc] - 1)) - 1)
                    rhs = lambda s: 1 + sum(cost(i, capped(kind[i], kind[eoc], na[i](max(0, s + R[i] - 1)), mpp)) for i in range(len(wl)) if i != eoc) + cost(eoc, selfn(s))
                    S = least_sol(sbf, limit, 0, rhs)
                    if S is None: exp = ("err", 0, limit)
                    else: exp = ("ok", inv_scan(sbf, max(0, sbf(S) - 1) + C[eoc]))
                else:
                    bwi = lambda d, act: sum(cost(i, capped(kind[i], kind[eoc], na[i](d), na[i](act) + mpp)) for i in range(len(wl)) if i != eoc)
                    selfn = lambda act: max(0, na[eoc](act + 1) - 1)
                    m = least_sol(sbf, limit, 0, lambda ta: 1 + bwi(ta, ta) + cost(eoc, na[eoc](ta)))
                    if m is None: exp = ("err", 0, limit)
                    else:
                        best = 0; exp = None
                        for ta in range(0, m):
                            S = least_sol(sbf, limit, 0, lambda s: 1 + bwi(s, ta) + cost(eoc, selfn(ta)))
                            if S is None: exp = ("err", 0, limit); break
                            F = inv_scan(sbf, max(0, sbf(S) - 1) + C[eoc])
                            best = max(best, max(0, F - ta) if len(sc) == 1 else F)
                        if exp is None: exp = ("ok", best)
            ctx.dist("outcome", exp[0])
            for name, iv in (("debug", dv), ("release", rv)):
                ctx.oracle("equals_exhaustive_evaluation", iv == exp, "%s (%s build) returns %s but exhaustive evaluation over every offset gives %s" % (q[0], name, rta.show(iv), rta.show(exp)),
                           [q], cls=cls)
        finalize(ctx)
KNOWN_PREDICATES["C07-ecrts19-pruning"] = lambda v: v.get("cls") == "oracle:exhaustive:ecrts19_pruning"

# ============================================================================= C04 / C05 (executor simulation oracles)
def supply_pattern(sb, horizon, rng=None, worst=True):
    if sb[0] == "dedicated": return [True] * horizon
    if sb[0] == "periodic_s": Q, D, P = sb[1], sb[2], sb[2]
    else: Q, D, P = sb[1], sb[2], sb[3]
    if worst or rng is None: return sim.worst_supply(Q, D, P, horizon)
    s = [False] * horizon
    for k in range(horizon // P + 1):
        slots = rng.sample(range(D), Q)
        for x in slots:
            if k * P + x < horizon: s[k * P + x] = True
    return s

def fifo_under_supply(jobs, supply, horizon):
    """jobs: list of (arr, cost, task); FIFO with the victim losing ties is handled by the caller's ordering"""
    order = sorted(range(len(jobs)), key=lambda k: (jobs[k][0], jobs[k][3]))
    left = [j[1] for j in jobs]; done = [None] * len(jobs)
    qi = 0; queue = []
    for t in range(horizon):
        while qi < len(order) and jobs[order[qi]][0] <= t: queue.append(order[qi]); qi += 1
        if not supply[t] or not queue: continue
        k = queue[0]; left[k] -= 1
        if left[k] == 0: done[k] = t + 1; queue.pop(0)
    return done

def gen_ros_system(rng, frames=False):
    nt = rng.randint(0, 2); npol = rng.randint(1, 3) if nt else rng.randint(1, 4)
    cbs = []
    for i in range(nt): cbs.append(dict(kind="timer", prio=i, cost=rng.randint(1, 5), ab=gen.gen_sporadic(rng) if rng.random() < 0.5 else ["periodic", rng.randint(5, 60)]))
    for i in range(npol): cbs.append(dict(kind="polled", prio=i, cost=rng.randint(1, 6), ab=gen.gen_sporadic(rng)))
    sb = families.gen_ros_sb(rng)
    if frames:
        for c in cbs:
            if rng.random() < 0.5:
                # wcet::Multiframe charges the first n frames for any n consecutive jobs: that is a bound on every run
                # only for non-increasing frame vectors (the classical accumulatively-monotonic assumption)
                c["frames"] = sorted([rng.randint(1, 5) for _ in range(rng.randint(2, 3))], reverse=True); c["cost"] = max(c["frames"])
                if c["ab"][0] == "sporadic" and rng.random() < 0.5: c["ab"] = ["sporadic", c["ab"][1], rng.randint(c["ab"][1], 3 * c["ab"][1])]
    # steer utilisation below the supply rate
    u = sum(c["cost"] * gen.ab_rate(c["ab"]) for c in cbs); rate = gen.sb_rate(sb) * rng.choice([0.4, 0.6, 0.8, 0.95])
    f = max(1.0, u / rate)
    for c in cbs:
        if c["ab"][0] == "periodic": c["ab"] = ["periodic", max(1, int(c["ab"][1] * f + 1))]
        else: c["ab"] = ["sporadic", max(1, int(c["ab"][1] * f + 1)), c["ab"][2]]
    return cbs, sb

def ros_releases(cbs, rng, horizon, delay_cb=None, delay=0):
    rel = []
    for i, c in enumerate(cbs):
        sh = delay if i == delay_cb else 0
        for a in dense_arrivals(c["ab"], rng, horizon, True, sh): rel.append((a, i))
    return rel

@register("C04")
class C04(Prop):
    rule = ("executor workloads of 0-2 timers and 1-4 polled callbacks (sporadic/periodic arrivals with jitter, scalar costs) under dedicated / "
            "periodic / constrained reservations, utilisation steered below the supply rate; event-source, timer and polling-point-callback "
            "analyses; correspondence one-sided; oracle = FIFO-under-supply (event source) and a ROS 2 executor simulation (timers first, ready "
            "set refreshed only when empty, non-preemptive) under the worst-case and random budget placements with synchronous and shifted "
            "releases; non-trivial = distinct query whose result is not Ok(0)")
    proof_status = "full: event source, timer, polling-point callback and processing chain proved sound under every budget placement for an abstract dispatcher class AND for every run of the operational executor models Spec/Executor.v / ExecutorChains.v (proved members of the class); that rclcpp behaves like these models is modelled, not verified"
    def run(self, ctx):
        rng = ctx.rng
        cases = []
        for _ in range(ctx.scale(500, 5000)):
            cbs, sb = gen_ros_system(rng, frames=True)
            limit = rng.randint(100, 600)
            rbf = lambda c: ["rbf", c["ab"], (["multiframe", c["frames"]] if c.get("frames") else ["scalar", c["cost"]])]
            kind = rng.choice(["es", "timer", "pp", "chain"])
            if kind == "timer" and not any(c["kind"] == "timer" for c in cbs): kind = "pp"
            pol = [i for i, c in enumerate(cbs) if c["kind"] == "polled"]
            if kind == "chain" and (len(pol) < 2 or any(c.get("frames") for c in cbs)): kind = "pp"
            if kind == "es":
                q = ["es", sb, ["agg", [rbf(c) for c in cbs]], limit]; tgt = None
            elif kind == "chain":
                # chain first -> last of two polled callbacks: `last` has no arrivals of its own, it is released when `first` completes
                first, last = rng.sample(pol, 2)
                ab = cbs[first]["ab"]
                lastrb = ["rbf", ab, ["scalar", cbs[last]["cost"]]]; pre = [["rbf", ab, ["scalar", cbs[first]["cost"]]]]
                others = [rbf(c) for i, c in enumerate(cbs) if i not in (first, last)]
                q = ["chain", sb, lastrb, ["agg", pre], ["agg", pre + [lastrb]], ["agg", others], limit]; tgt = ("chain", first, last)
            elif kind == "timer":
                tgt = rng.choice([i for i, c in enumerate(cbs) if c["kind"] == "timer"])
                hp = [rbf(c) for i, c in enumerate(cbs) if c["kind"] == "timer" and c["prio"] < cbs[tgt]["prio"]]
                B = max([c["cost"] for i, c in enumerate(cbs) if i != tgt and not (c["kind"] == "timer" and c["prio"] < cbs[tgt]["prio"])], default=0)
                q = ["timer", sb, rbf(cbs[tgt]), ["agg", hp], B, limit]
            else:
                tgt = rng.choice([i for i, c in enumerate(cbs) if c["kind"] == "polled"])
                q = ["pp", sb, rbf(cbs[tgt]), ["agg", [rbf(c) for i, c in enumerate(cbs) if i != tgt]], limit]
            cases.append((q, cbs, sb, tgt))
        # targeted family (mostly correspondence only, simulated 1 in 10): a bursty timer with a decreasing multiframe cost model below
        # dense higher-priority timers -- the offset A > 0 of the second job of a burst dominates and its (cheaper) cost determines the
        # window in which timers still interfere (Lemma 3)
        nosim = set()
        for k in range(ctx.scale(1600, 8000)):
            T = rng.randint(60, 120); c1 = rng.randint(4, 9); c2 = rng.randint(1, 2); gap = rng.randint(c1 + 2, 3 * c1 + 10)
            own = dict(kind="timer", prio=9, cost=c1, frames=[c1, c2], ab=["sporadic", T, T - gap])
            if k % 2: own["ccurve"] = [c1, c1 + c2, 2 * c1 + c2]        # the same costs as a wcet::Curve (jobs c1, c2, c1, ...)
            cbs = [dict(kind="timer", prio=i, cost=rng.randint(1, 3), ab=["periodic", rng.randint(7, 16)]) for i in range(rng.randint(1, 3))] + [own]
            if rng.random() < 0.3: cbs.append(dict(kind="polled", prio=0, cost=rng.randint(1, 3), ab=["periodic", rng.randint(40, 90)]))
            sb = rng.choice([["dedicated"], ["periodic_s", 3, 5], ["periodic_s", rng.randint(3, 5), rng.randint(5, 7)], ["constrained_s", 3, 4, 6]])
            rbf = lambda c: ["rbf", c["ab"], (["ccurve", ["costs", c["ccurve"]]] if c.get("ccurve") else ["multiframe", c["frames"]] if c.get("frames") else ["scalar", c["cost"]])]
            ti = cbs.index(own)
            B = max([c["cost"] for c in cbs[ti + 1:]], default=0)
            if k % 10: nosim.add(len(cases))
            cases.append((["timer", sb, rbf(own), ["agg", [rbf(c) for c in cbs[:ti]]], B, rng.randint(150, 600)], cbs, sb, ti))
        rows = ctx.run([c[0] for c in cases])
        ctx.correspond(rows, relation="one")
        for ci, ((q, cbs, sb, tgt), (_, dv, rv, mv)) in enumerate(zip(cases, rows)):
            ctx.dist("analysis", q[0]); ctx.dist("supply", sb[0])
            if not dv or dv[0] != "ok": ctx.dist("outcome", dv[0] if dv else "none"); continue
            ctx.dist("outcome", "ok")
            suspicious = bool(mv) and mv[0] == "ok" and dv[1] < mv[1]       # below the model's (proved safe) value: search harder
            if ci in nosim and not suspicious: continue
            R = min(dv[1], rv[1]) if rv and rv[0] == "ok" else dv[1]
            H = min(500, 2 * q[-1])
            worst = 0; wit = None
            for tr in range(12 if suspicious else 2 if ctx.tier == "quick" else 5):
                sup = supply_pattern(sb, H + 400, rng, worst=(tr == 0))
                if q[0] == "es":
                    for victim in range(len(cbs)):
                        jobs = []
                        for i, c in enumerate(cbs):
                            for n_, a in enumerate(dense_arrivals(c["ab"], rng, H, True, 0)):
                                cst = c["frames"][n_ % len(c["frames"])] if c.get("frames") else c["cost"]
                                if cst > 0: jobs.append((a, cst, i, 1 if i == victim else 0))
                        done = fifo_under_supply(jobs, sup, H + 400)
                        for k, j in enumerate(jobs):
                            if j[2] == victim and done[k] is not None and done[k] - j[0] > worst: worst = done[k] - j[0]; wit = dict(job=j[:3], response=worst)
                elif isinstance(tgt, tuple):
                    _, first, last = tgt
                    dly = 0 if tr == 0 else rng.randint(0, 10)
                    rel = [(a, i) for (a, i) in ros_releases(cbs, rng, H, first, dly) if i != last]     # `last` is only triggered by `first`
                    for (cb, a, fin, src) in sim.executor(cbs, {first: last}, rel, sup, H + 400):
                        if cb == last and fin - src > worst: worst = fin - src; wit = dict(chain=(first, last), source_arrival=src, completion=fin)
                else:
                    dly = 0 if tr == 0 else rng.randint(0, 10)
                    rel = ros_releases(cbs, rng, H, tgt, dly)
                    for (cb, a, fin, src) in sim.executor(cbs, {}, rel, sup, H + 400):
                        if cb == tgt and fin - a > worst: worst = fin - a; wit = dict(cb=cb, arrival=a, completion=fin)
            ctx.oracle("no_run_exceeds_the_bound", worst <= R, "%s returns Ok(%d) but an instance has response time %d in the simulated executor/reservation" % (q[0], R, worst),
                       [q], cls="oracle:unsafe:" + q[0], extra=dict(witness=wit, callbacks=[(c["kind"], c["prio"], c["cost"], c["ab"]) for c in cbs], supply=sb))
        finalize(ctx)

@register("C05")
class C05(Prop):
    rule = ("executor workloads mixing timers and polled callbacks (known and unknown priorities) under dedicated/periodic/constrained supplies; "
            "for both rr and bw the analysis is iterated upwards from the WCETs, every callback as a singleton subchain, until the assumed-bound "
            "vector reproduces itself; correspondence two-sided on the final queries; oracle = ROS 2 executor simulation (worst-case and random "
            "budget placement, synchronous and shifted releases): no instance may exceed its self-consistent bound; non-trivial = distinct query "
            "whose result is not Ok(0)")
    proof_status = ("full against the operational executor model Spec/Executor.v: C05_rr_sound (pairwise distinct known priorities), C05_bw_sound "
                    "(any priority order; exact step enumeration); that rclcpp behaves like the model is modelled, not verified")
    def run(self, ctx):
        rng = ctx.rng
        systems = []
        for _ in range(ctx.scale(90, 1500)):
            cbs, sb = gen_ros_system(rng, frames=(rng.random() < 0.35))      # a third with (non-increasing) multiframe cost models
            for c in cbs:
                c["k"] = "timer" if c["kind"] == "timer" else rng.choice(["pu", ["p", c["prio"]]])
            systems.append(dict(cbs=cbs, sb=sb, which=rng.choice(["rr", "bw"]), limit=rng.randint(100, 500), R=[c["cost"] for c in cbs], state="iter"))
        def queries(S):
            wl = [[r, c["ab"], (["multiframe", c["frames"]] if c.get("frames") else ["scalar", c["cost"]]), c["k"]] for r, c in zip(S["R"], S["cbs"])]
            return [[S["which"], S["sb"], wl, [i], S["limit"]] for i in range(len(S["cbs"]))]
        for it in range(14):
            act = [S for S in systems if S["state"] == "iter"]
            if not act: break
            qs = []; idx = []
            for S in act:
                q = queries(S); idx.append((S, len(qs), len(q))); qs += q
            rows = ctx.run(qs, model=False, release=False)
            for S, b, n in idx:
                res = [rows[b + i][1] for i in range(n)]
                if any(r is None or r[0] != "ok" for r in res): S["state"] = "diverged"; continue
                new = [max(r[1], old) for r, old in zip(res, S["R"])]
                if new == S["R"]: S["state"] = "fixed"
                else: S["R"] = new
        fixed = [S for S in systems if S["state"] == "fixed"]
        ctx.dist("iteration", "fixed_point"); 
        for S in systems: ctx.dist("iteration_outcome", S["state"])
        qs = []; idx = []
        for S in fixed:
            q = queries(S); idx.append((S, len(qs), len(q))); qs += q
        # plus multi-callback subchains for correspondence only
        extra = []
        for _ in range(ctx.scale(120, 1500)): extra += families.q_rtss(rng)
        rows = ctx.run(qs + extra)
        ctx.correspond(rows)
        for S, b, n in idx:
            cbs, sb = S["cbs"], S["sb"]
            bounds = []
            for i in range(n):
                dv, rv = rows[b + i][1], rows[b + i][2]
                bounds.append(dv[1] if dv and dv[0] == "ok" else None)
            if any(x is None for x in bounds): continue
            ctx.dist("analysis", S["which"]); ctx.dist("supply", sb[0])
            H = 400
            # below the model's value (which is proved safe): search much harder for a run that exceeds the bound
            suspicious = any(rows[b + i][3] and rows[b + i][3][0] == "ok" and rows[b + i][1][1] < rows[b + i][3][1] for i in range(n))
            for tr in range(60 if suspicious else 2 if ctx.tier == "quick" else 5):
                sup = supply_pattern(sb, H + 400, rng, worst=(tr == 0 or (suspicious and tr % 2 == 0)))
                tgt = rng.randrange(len(cbs)); dly = 0 if tr == 0 else rng.randint(0, 12)
                rel = ros_releases(cbs, rng, H, tgt, dly)
                if suspicious and tr >= 2:          # every callback with its own release offset
                    rel = []
                    for ci, c in enumerate(cbs):
                        for a_ in dense_arrivals(c["ab"], rng, H, True, rng.randint(0, 12)): rel.append((a_, ci))
                worst = [0] * len(cbs)
                for (cb, a, fin, src) in sim.executor(cbs, {}, rel, sup, H + 400):
                    if a < H: worst[cb] = max(worst[cb], fin - a)
                bad = [i for i in range(len(cbs)) if worst[i] > bounds[i]]
                ctx.oracle("no_instance_exceeds_its_self_consistent_bound", not bad,
                           "%s: self-consistent bounds %s but the simulated executor shows response times %s (callbacks %s, supply %s)" %
                           (S["which"], bounds, worst, [(c["k"], c["cost"], c["ab"]) for c in cbs], sb),
                           [rows[b + i][0] for i in bad[:1]], cls="oracle:unsafe:" + S["which"])
        finalize(ctx)

# ============================================================================= C15
import math
@register("C15")
class C15(Prop):
    rule = ("rates as small rationals x epsilon in {1e-1 .. 1e-6} x interval lengths such that the mean rate*delta ranges over "
            "[0, 3000] (incl. the hundreds and thousands where the naive evaluation overflowed); the implementation's n is accepted iff "
            "the certified checker of Model/Poisson.v places it in the tolerance band (tau = 1e-9) of the (1-eps) quantile; plus "
            "monotonicity in delta, 0 at delta = 0 and the mass function against a log-space evaluation (a non-finite value fails); a quantile-threshold "
            "stream: for coarse and fine epsilons and k <= 5 the interval lengths on either side of the mean at which the quantile changes from k to k+1 "
            "(k = 0: sparse processes whose bound is 0); non-trivial = distinct query "
            "with non-zero result")
    proof_status = "real-number specification and checker soundness proved (standard-library real/classical axioms); the f64 program itself is tied by the tolerance-band check only"
    trusted_extra = ["C15: axioms of the standard library's real numbers and Coquelicot: ClassicalDedekindReals.sig_forall_dec, sig_not_dec, FunctionalExtensionality.functional_extensionality_dep, Classical_Prop.classic",
                     "C15: f64 arithmetic, exp and ln of the platform are not modelled; the tolerance tau = 1e-9 (1e-12 for the tiny-epsilon stream with means below 30) absorbs their rounding"]
    def run(self, ctx):
        rng = ctx.rng
        qs = []; meta = []
        for _ in range(ctx.scale(160, 2000)):
            rd = rng.choice([1, 10, 100, 1000]); rn = rng.randint(1, 50)
            ed = rng.choice([10, 100, 1000, 10000, 1000000]); en = rng.randint(1, 9)
            mean = rng.choice([rng.uniform(0, 5), rng.uniform(1, 150), rng.uniform(100, 1000), rng.uniform(500, 3000)])
            delta = max(0, int(mean * rd / rn))
            if rng.random() < 0.05: delta = 0
            base = len(qs)
            qs += [["poisson_na", rn, rd, en, ed, delta], ["poisson_na", rn, rd, en, ed, delta + rng.randint(1, 5)]]
            meta.append((base, rn, rd, en, ed, delta))
        # tiny epsilons (1e-9 .. 1e-12; "all epsilon in (0,1)"): small means only, so that the f64 running sum (at most ~150 terms)
        # is accurate to ~1e-14 and the band can be as narrow as tau = 1e-12
        tiny = set()
        for _ in range(ctx.scale(40, 400)):
            rd = rng.choice([10, 100]); rn = rng.randint(1, 50)
            ed = rng.choice([10 ** 9, 10 ** 10, 10 ** 11, 10 ** 12]); en = rng.randint(1, 9)
            delta = max(1, int(rng.uniform(0.2, 30) * rd / rn))
            base = len(qs); tiny.add(base)
            qs += [["poisson_na", rn, rd, en, ed, delta], ["poisson_na", rn, rd, en, ed, delta + rng.randint(1, 5)]]
            meta.append((base, rn, rd, en, ed, delta))
        # quantile thresholds (round 10, C15-A10): for a coarse or fine epsilon and a small k, the interval lengths on either side of the
        # mean at which the (1-eps) quantile changes from k to k+1 (k = 0: mean = -ln(1-eps), the sparse processes whose bound is 0)
        def cdf(k, m): return sum(math.exp(-m + j * math.log(m) - math.lgamma(j + 1)) for j in range(k + 1)) if m > 0 else 1.0
        for _ in range(ctx.scale(60, 600)):
            ed = rng.choice([10, 10, 100, 1000]); en = rng.randint(1, 9); eps = en / ed; k = rng.choice([0, 0, 0, 1, 2, 3, 5])
            lo, hi = 0.0, 60.0
            for _i in range(80):
                mid = (lo + hi) / 2
                if cdf(k, mid) >= 1 - eps: lo = mid
                else: hi = mid
            rd = 1000; rn = rng.randint(1, 50); delta = max(1, int(lo * rd / rn))
            base = len(qs)
            qs += [["poisson_na", rn, rd, en, ed, delta], ["poisson_na", rn, rd, en, ed, delta + 1]]
            meta.append((base, rn, rd, en, ed, delta))
        for _ in range(ctx.scale(80, 800)):
            rd = rng.choice([1, 10, 100]); rn = rng.randint(1, 30); delta = rng.randint(0, 600); k = rng.randint(0, 40) + int(rn * delta / rd)
            qs.append(["poisson_pmf", rn, rd, delta, max(0, k - rng.randint(0, 30))]); meta.append(("pmf", len(qs) - 1))
        for k in (0, 0, 1, 3):      # the degenerate zero-mean process (empty interval, positive rate): all mass at k = 0
            qs.append(["poisson_pmf", rng.randint(1, 30), rng.choice([1, 10, 100]), 0, k]); meta.append(("pmf", len(qs) - 1))
        rows = ctx.run(qs, model=False)
        # the certified band test on the implementation's answers
        cq = []; cmeta = []
        for m in meta:
            if m[0] == "pmf": continue
            base, rn, rd, en, ed, delta = m
            for off, d in ((0, delta), (1, qs[base + 1][5])):
                dv = rows[base + off][1]
                if dv and dv[0] == "n":
                    cq.append(["poisson_check", rn, rd, en, ed, 1, 10 ** (12 if base in tiny else 9), d, dv[1]]); cmeta.append((rows[base + off][0], dv[1], rn * d / rd))
        crows = ctx.run(cq, release=False) if False else None
        # poisson_check is a model-only query: evaluate through the model runner directly
        cases = list(enumerate(cq))
        mres, errs = rta.run_model(cases, "%s_pc" % ctx._tag, per_case_timeout=60)
        ctx.corr_stats["cases"] += len(cq)
        for i, (q0, n, mean) in enumerate(cmeta):
            ctx.evaluations += 1
            ctx.dist("mean_bucket", "0" if mean == 0 else "<10" if mean < 10 else "<150" if mean < 150 else "<1000" if mean < 1000 else ">=1000")
            r = mres.get(i)
            if r is None: ctx.corr_stats["model_timeouts"] += 1; continue
            ok = r == ("n", 1)
            if ok and n > 0: ctx._distinct.add(rta.stable_hash(q0))
            if not ok: ctx.corr_stats["disagreements"] += 1
            ctx.oracle("answer_is_the_quantile_up_to_tolerance", ok,
                       "number_arrivals = %d for mean %.3f is outside the tolerance band of the (1-eps) quantile (certified checker rejects it)" % (n, mean),
                       [q0], cls="oracle:not_quantile")
        for m in meta:
            if m[0] == "pmf":
                q, dv, rv, _ = rows[m[1]]
                if dv and dv[0] == "f" and len(dv) < 4:      # "f nan" / "f inf": a probability must be a finite number (round 10, C15-B10)
                    ctx.oracle("mass_function", False, "arrival_probability(rate %d/%d, delta %d, k=%d) is not a finite number: %s" % (q[1], q[2], q[3], q[4], dv[1]), [q], cls="oracle:pmf")
                    continue
                if not dv or dv[0] != "f" or len(dv) < 4: continue
                try: val = (-1) ** int(dv[3]) * int(dv[1]) * 2.0 ** int(dv[2])
                except Exception: continue
                mean = q[1] * q[3] / q[2]; k = q[4]
                ref = (1.0 if k == 0 else 0.0) if mean == 0 else math.exp(-mean + k * math.log(mean) - math.lgamma(k + 1))
                ctx.oracle("mass_function", abs(val - ref) <= 1e-9 * max(ref, 1e-300) + 1e-300, "arrival_probability(mean %.3f, k=%d) = %.17g, Poisson mass function = %.17g" % (mean, k, val, ref), [q], cls="oracle:pmf")
                continue
            base = m[0]
            a, b = rows[base][1], rows[base + 1][1]
            if a and b and a[0] == "n" and b[0] == "n":
                ctx.oracle("non_decreasing_in_delta", a[1] <= b[1], "number_arrivals decreases from %d to %d when delta grows" % (a[1], b[1]), [rows[base][0], rows[base + 1][0]], cls="oracle:not_monotone")
                if m[5] == 0: ctx.oracle("zero_at_zero", a[1] == 0, "number_arrivals(0) = %d" % a[1], [rows[base][0]], cls="oracle:zero")
            for x in (a, b):
                if x and x[0] in ("timeout", "panic"): ctx.oracle("terminates", False, "number_arrivals did not return a value: %s" % x[0], [rows[base][0]], cls="oracle:no_value")
        finalize(ctx)
