#!/usr/bin/env python3
"""Shared machinery: S-expressions, translation of cases into Coq terms, running the Rust oracle
(both profiles, with a watchdog) and the Coq model (vm_compute through coqtop, sharded), and
canonical results.  Standard library only."""
import os, re, subprocess, sys, time, json, hashlib, threading, shutil

VERIF = os.path.dirname(os.path.dirname(os.path.abspath(__file__)))
REPO = os.environ.get("RTA_REPO", "/repo")
COQDIR = os.path.join(VERIF, "coq")
HARNESS = os.path.join(VERIF, "harness")
WORK = os.path.join(VERIF, ".work")
NCPU = 16

# ----------------------------------------------------------------------------- s-expressions
def sx(x):
    """print a nested python list / int / str as an s-expression"""
    if isinstance(x, (list, tuple)):
        return "(" + " ".join(sx(y) for y in x) + ")"
    return str(x)

_tok = re.compile(r"\(|\)|[^\s()]+")
def parse(s):
    toks = _tok.findall(s)
    pos = 0
    def rd():
        nonlocal pos
        t = toks[pos]; pos += 1
        if t == "(":
            out = []
            while toks[pos] != ")":
                out.append(rd())
            pos += 1
            return out
        if t.isdigit():
            return int(t)
        return t
    return rd()

# ----------------------------------------------------------------------------- translation to Coq
class Hoist:
    """partial constructors (those that can panic) are hoisted into option matches"""
    def __init__(self):
        self.binds = []
    def add(self, term):
        v = "v%d" % len(self.binds)
        self.binds.append((v, term))
        return v
    def wrap(self, body):
        for v, t in reversed(self.binds):
            body = "match %s with Some %s => %s | None => OPanic end" % (t, v, body)
        return body

def nlist(l):
    return "[" + "; ".join(str(x) for x in l) + "]"

def c_ab(a, h):
    k = a[0]
    if k == "periodic": return "(Periodic %d)" % a[1]
    if k == "sporadic": return "(Sporadic %d %d)" % (a[1], a[2])
    if k == "never": return "Never"
    # a delta-min vector whose last entry is 0 makes number_arrivals divide by zero (and steps_iter index an
    # empty vector): the arrival bound is unusable -> the model reports a panic
    if k == "curve": return "(CurveAB %s)" % h.add("(usable_curve %s)" % c_curve(a[1], h))
    if k == "extrap": return "(ExtrapAB %s)" % h.add("(usable_curve %s)" % c_curve(a[1], h))
    if k == "prefix":
        p = c_prefix(a[1], h)
        return "(PrefixAB (fst %s) (snd %s))" % (p, p)
    if k == "propagated": return "(Propagated %d %s)" % (a[1], c_ab(a[2], h))
    if k == "jitter": return "(clone_with_jitter %s %d)" % (c_ab(a[2], h), a[1])
    if k == "sum": return "(SumAB [%s])" % "; ".join(c_ab(x, h) for x in a[1])
    if k == "sum2": return "(SumAB [%s; %s])" % (c_ab(a[1], h), c_ab(a[2], h))
    raise ValueError("AB " + sx(a))

def c_curve(c, h):
    k = c[0]
    if k == "dmin":
        if not c[1]: return h.add("(@None (list N))")
        return nlist(c[1])
    if k == "fromiter": return h.add("(nonempty (curve_from_iter %s))" % nlist(c[1]))
    if k == "from_trace": return h.add("(nonempty (curve_from_trace %s %d))" % (nlist(c[1]), c[2]))
    if k == "from_ab": return h.add("(nonempty (curve_from_ab %s %d))" % (c_ab(c[1], h), c[2]))
    if k == "from_ab_until": return h.add("(nonempty (curve_from_ab_until %s %d))" % (c_ab(c[1], h), c[2]))
    if k == "of_periodic": return "(curve_of_periodic %d)" % c[1]
    if k == "of_sporadic": return h.add("(nonempty (curve_of_sporadic %d %d))" % (c[1], c[2]))
    if k == "of_prefix":
        p = c_prefix(c[1], h)
        return h.add("(curve_of_prefix (fst %s) (snd %s))" % (p, p))
    if k == "extrapolate": return "(extrapolate %s %d)" % (c_curve(c[1], h), c[2])
    if k == "extrapolate_steps": return "(extrapolate_steps %s %d)" % (c_curve(c[1], h), c[2])
    if k == "extrapolate_with_bound":
        return h.add("(extrapolate_with_bound %s %d %d)" % (c_curve(c[1], h), c[2], c[3]))
    raise ValueError("CURVE " + sx(c))

def c_prefix(p, h):
    k = p[0]
    if k == "steps":
        return h.add("(prefix_new %d [%s])" % (p[1], "; ".join("(%d, %d)" % (d, n) for d, n in p[2])))
    if k == "prefix_from":
        return h.add("(prefix_from_ab_until %s %d)" % (c_ab(p[1], h), p[2]))
    raise ValueError("PREFIX " + sx(p))

def c_cm(c, h):
    k = c[0]
    if k == "scalar": return "(Scalar %d)" % c[1]
    if k == "multiframe": return "(Multiframe %s)" % nlist(c[1])
    if k == "ccurve": return "(CurveCM %s)" % c_wcurve(c[1], h)
    if k == "cextrap": return "(ExtrapCM %s)" % c_wcurve(c[1], h)
    raise ValueError("CM " + sx(c))

def c_wcurve(w, h):
    k = w[0]
    if k == "costs": return nlist(w[1])
    if k == "cfromiter": return "(wcurve_from_iter %s)" % nlist(w[1])
    if k == "cfrom_trace": return "(wcurve_from_trace %s %d)" % (nlist(w[1]), w[2])
    if k == "cextrapolate": return "(wextrapolate %s %d)" % (c_wcurve(w[1], h), w[2])
    raise ValueError("WCURVE " + sx(w))

def c_rb(r, h):
    k = r[0]
    if k == "rbf": return "(RBF %s %s)" % (c_ab(r[1], h), c_cm(r[2], h))
    if k in ("agg", "slice"): return "(Agg [%s])" % "; ".join(c_rb(x, h) for x in r[1])
    if k == "boxed": return c_rb(r[1], h)
    # a user-defined request bound that forwards the required methods only: the provided service_needed is the sum of the job costs,
    # service_needed_by_n_jobs the sum of the n largest -- what the model's sn / snn compute (C16_job_costs_sum_to_service_needed)
    if k == "default_rb": return c_rb(r[1], h)
    raise ValueError("RB " + sx(r))

def c_rbs(l, h):
    return "[%s]" % "; ".join(c_rb(x, h) for x in l)

def c_sb(s, h):
    k = s[0]
    if k == "dedicated": return "Dedicated"
    if k == "periodic_s": return "(PeriodicS %d %d)" % (s[1], s[2])
    if k == "constrained_s": return "(ConstrainedS %d %d %d)" % (s[1], s[2], s[3])
    if k == "default_st": return "(DefaultST %s)" % c_sb(s[1], h)
    if k == "table_s": return "(TableS %s)" % nlist(s[1])
    raise ValueError("SB " + sx(s))

def c_w(w, h):
    if w[0] == "wtable": return "(wtable %s %d %d)" % (nlist(w[1]), w[2], w[3])
    if w[0] == "wrbf": return "(sn %s)" % c_rb(w[1], h)
    raise ValueError("W " + sx(w))

def c_kind(k):
    if k == "timer": return "KTimer"
    if k == "es": return "KES"
    if k == "pu": return "KPU"
    return "(KP %d)" % k[1]

def c_res(r):
    return "(ROk %d)" % r[1] if r[0] == "ok" else "(RErr %d %d)" % (r[1], r[2])

def c_wl(wl, h):
    return "[%s]" % "; ".join("(%d, %s, %s, %s)" % (R, c_ab(ab, h), c_cm(cm, h), c_kind(k)) for R, ab, cm, k in wl)

def nat(n): return "%d%%nat" % n

def c_hops(ops):
    out = []
    for o in ops:
        if o[0] == "hclone": out.append("HClone %s" % nat(o[1]))
        elif o[0] == "hna": out.append("HNaQ %s %d" % (nat(o[1]), o[2]))
        elif o[0] == "hopen": out.append("HOpen %s" % nat(o[1]))
        elif o[0] == "hnext": out.append("HNext %s" % nat(o[1]))
        else: raise ValueError(sx(o))
    return "[%s]" % "; ".join(out)

def c_cops(ops):
    out = []
    for o in ops:
        if o[0] == "hclone": out.append("CClone %s" % nat(o[1]))
        elif o[0] == "hcost": out.append("CCost %s %d" % (nat(o[1]), o[2]))
        elif o[0] == "hleast": out.append("CLeast %s %d" % (nat(o[1]), o[2]))
        elif o[0] == "hjc": out.append("CJc %s %d" % (nat(o[1]), o[2]))
        else: raise ValueError(sx(o))
    return "[%s]" % "; ".join(out)

def to_coq(q, dbg=True):
    """Coq term of type [out] for a query"""
    h = Hoist()
    D = "true" if dbg else "false"
    k = q[0]
    if k == "na": b = "ON (na %s %d)" % (c_ab(q[1], h), q[2])
    elif k == "natab": b = "OL (natab %s %d)" % (c_ab(q[1], h), q[2])
    elif k == "steps": b = "OL (firstn %s (steps_upto %s %d))" % (nat(q[3]), c_ab(q[1], h), q[2])
    elif k == "bfsteps": b = "OL (bf_steps_upto (na %s) %d)" % (c_ab(q[1], h), q[2])
    elif k == "dmins": b = "OL (flat_pairs (delta_mins_take %s %s))" % (c_ab(q[1], h), nat(q[2]))
    elif k == "nzdmins": b = "OL (flat_pairs (dmins_take %s %s))" % (c_ab(q[1], h), nat(q[2]))
    elif k == "curvevec": b = "OL %s" % c_curve(q[1], h)
    elif k == "mindist": b = "ON (min_distance %s %d)" % (c_curve(q[1], h), q[2])
    elif k == "prefixsteps":
        p = c_prefix(q[1], h); b = "OL (fst %s :: flat_pairs (snd %s))" % (p, p)
    elif k == "hist": b = "OL (hist %s %s)" % (c_curve(q[1], h), c_hops(q[2]))
    # (default_cm X): a user-defined cost model that forwards job_cost_iter only -- the trait's PROVIDED methods are modelled by their
    # definitions: cost_of_jobs(n) = sum, least_wcet(n) = minimum (0 if empty) of the first n items of job_cost_iter
    elif k == "cost" and q[1][0] == "default_cm": b = "ON (sumN (job_costs %s %d))" % (c_cm(q[1][1], h), q[2])
    elif k == "least" and q[1][0] == "default_cm": b = "ON (minN_or 0 (job_costs %s %d))" % (c_cm(q[1][1], h), q[2])
    elif k == "jobcosts" and q[1][0] == "default_cm": b = "OL (job_costs %s %d)" % (c_cm(q[1][1], h), q[2])
    elif k == "cost": b = "ON (cost_of_jobs %s %d)" % (c_cm(q[1], h), q[2])
    elif k == "least": b = "ON (least_wcet %s %d)" % (c_cm(q[1], h), q[2])
    elif k == "jobcosts": b = "OL (job_costs %s %d)" % (c_cm(q[1], h), q[2])
    elif k == "wcurvevec": b = "OL %s" % c_wcurve(q[1], h)
    elif k == "chist": b = "OL (chist %s %s)" % (c_wcurve(q[1], h), c_cops(q[2]))
    elif k == "sn": b = "ON (sn %s %d)" % (c_rb(q[1], h), q[2])
    elif k == "sntab": b = "OL (sntab %s %d)" % (c_rb(q[1], h), q[2])
    elif k == "snn": b = "ON (snn %s %d %d)" % (c_rb(q[1], h), q[2], q[3])
    elif k == "snc": b = "match snc %s %d %d with Some x => ON x | None => OPanic end" % (c_rb(q[1], h), q[2], q[3])
    elif k == "lw": b = "ON (lw %s %d)" % (c_rb(q[1], h), q[2])
    elif k == "rbsteps": b = "OL (firstn %s (rb_steps_upto %s %d))" % (nat(q[3]), c_rb(q[1], h), q[2])
    elif k == "jc": b = "OL (jc %s %d)" % (c_rb(q[1], h), q[2])
    elif k == "stepoff":
        b = "match step_offsets_below (rb_steps_upto %s %d) with Some l => OL (firstn %s l) | None => OPanic end" % (c_rb(q[1], h), q[2], nat(q[3]))
    elif k == "sbf": b = "ON (sbf %s %d)" % (c_sb(q[1], h), q[2])
    elif k == "sbftab": b = "OL (sbftab %s %d)" % (c_sb(q[1], h), q[2])
    elif k == "st": b = "ON (st %s %d)" % (c_sb(q[1], h), q[2])
    elif k == "search": b = "OR (e_search %s %s %d %s)" % (D, c_sb(q[1], h), q[2], c_w(q[3], h))
    elif k == "searchoff": b = "OR (e_searchoff %s %d %d %s)" % (c_sb(q[1], h), q[2], q[3], c_w(q[4], h))
    elif k == "maxrt": b = "OR (max_response_time [%s])" % "; ".join(c_res(r) for r in q[1])
    elif k == "fp_fp": b = "OR (e_fp_fp %s %s %s %d)" % (D, c_rb(q[1], h), c_rbs(q[2], h), q[3])
    elif k == "fp_np": b = "OR (e_fp_np %s %s %d %d %s %d)" % (D, c_ab(q[1], h), q[2], q[3], c_rbs(q[4], h), q[5])
    elif k == "fp_lp": b = "OR (e_fp_lp %s %s %d %d %d %s %d)" % (D, c_ab(q[1], h), q[2], q[3], q[4], c_rbs(q[5], h), q[6])
    elif k == "fp_fnp": b = "OR (e_fp_fnp %s %s %d %s %d)" % (D, c_rb(q[1], h), q[2], c_rbs(q[3], h), q[4])
    elif k == "edf_fp":
        t = q[1]; b = "OR (e_edf_fp %s %s %d [%s] %d)" % (D, c_rb(t[0], h), t[1], "; ".join("(%s, %d)" % (c_rb(o[0], h), o[1]) for o in q[2]), q[3])
    elif k == "edf_np":
        t = q[1]; b = "OR (e_edf_np %s %s %d %d [%s] %d)" % (D, c_ab(t[0], h), t[1], t[2], "; ".join("(%s, %d, %d)" % (c_ab(o[0], h), o[1], o[2]) for o in q[2]), q[3])
    elif k == "edf_lp":
        t = q[1]; b = "OR (e_edf_lp %s %s %d %d %d [%s] %d)" % (D, c_ab(t[0], h), t[1], t[2], t[3], "; ".join("(%s, %d, %d)" % (c_rb(o[0], h), o[1], o[2]) for o in q[2]), q[3])
    elif k == "edf_fnp":
        t = q[1]; b = "OR (e_edf_fnp %s %s %d [%s] %d)" % (D, c_rb(t[0], h), t[1], "; ".join("(%s, %d, %d)" % (c_rb(o[0], h), o[1], o[2]) for o in q[2]), q[3])
    elif k == "fifo": b = "OR (e_fifo %s %s %d)" % (D, c_rb(q[1], h), q[2])
    elif k == "es": b = "OR (e_es %s %s %s %d)" % (D, c_sb(q[1], h), c_rb(q[2], h), q[3])
    elif k == "timer": b = "OR (e_timer %s %s %s %s %d %d)" % (D, c_sb(q[1], h), c_rb(q[2], h), c_rb(q[3], h), q[4], q[5])
    elif k == "pp": b = "OR (e_pp %s %s %s %s %d)" % (D, c_sb(q[1], h), c_rb(q[2], h), c_rb(q[3], h), q[4])
    elif k == "chain": b = "OR (e_chain %s %s %s %s %s %s %d)" % (D, c_sb(q[1], h), c_rb(q[2], h), c_rb(q[3], h), c_rb(q[4], h), c_rb(q[5], h), q[6])
    elif k == "poisson_check":
        # (poisson_check RN RD EN ED TN TD DELTA N): the certified band test of Model/Poisson.v
        b = "ON (if Poisson.poisson_check %s then 1 else 0)" % " ".join("%d%%N" % x for x in q[1:9])
    elif k in ("rr", "bw"):
        b = "OR (e_%s %s %s %s [%s] %d)" % (k, D, c_sb(q[1], h), c_wl(q[2], h), "; ".join(nat(i) for i in q[3]), q[4])
    else:
        raise ValueError("query " + sx(q))
    return h.wrap(b)

# ----------------------------------------------------------------------------- canonical results
def canon_rust(s):
    """'n 5' -> ('n',5); 'l 1 2' -> ('l',(1,2)); 'ok 5'; 'err o l'; 'panic'; 'timeout'"""
    p = s.split()
    if not p: return ("bad", s)
    if p[0] == "n": return ("n", int(p[1]))
    if p[0] == "l": return ("l", tuple(int(x) for x in p[1:]))
    if p[0] == "ok": return ("ok", int(p[1]))
    if p[0] == "err": return ("err", int(p[1]), int(p[2]))
    if p[0] in ("panic", "timeout", "errav"): return (p[0],)
    if p[0] == "f": return ("f",) + tuple(p[1:])
    return ("bad", s)

_num = re.compile(r"\d+")
def canon_coq(s):
    s = s.strip()
    if s.startswith("ON"): return ("n", int(_num.search(s).group()))
    if s.startswith("OL"): return ("l", tuple(int(x) for x in _num.findall(s)))
    if s.startswith("OPanic"): return ("panic",)
    if s.startswith("OR"):
        if "ROk" in s: return ("ok", int(_num.search(s).group()))
        if "RErr" in s:
            a = _num.findall(s); return ("err", int(a[0]), int(a[1]))
        if "RPanic" in s: return ("panic",)
    return ("bad", s)

def show(c):
    if c is None: return "missing"
    if c[0] == "l": return "l " + " ".join(map(str, c[1]))
    return " ".join(str(x) for x in c)

# ----------------------------------------------------------------------------- building
def sh(cmd, timeout=None, cwd=None, env=None):
    e = dict(os.environ)
    e.update({"CARGO_NET_OFFLINE": "true"})
    if env: e.update(env)
    return subprocess.run(cmd, shell=True, cwd=cwd, env=e, timeout=timeout,
                          stdout=subprocess.PIPE, stderr=subprocess.STDOUT, text=True)

def build_harness():
    """(re)build both profiles of the oracle from /repo's current working tree"""
    t0 = time.time()
    outs = []
    for prof in ("", "--release"):
        r = sh("cargo build --offline %s 2>&1 | tail -30" % prof, cwd=HARNESS, timeout=1800)
        outs.append(r.stdout)
    ok = all(os.path.exists(os.path.join(HARNESS, "target", d, "rta_oracle")) for d in ("debug", "release"))
    # a failed build leaves the old binary: detect through cargo's message
    bad = [o for o in outs if "error" in o and "could not compile" in o]
    return ok and not bad, "\n".join(outs), time.time() - t0

def oracle_bin(profile):
    # development aid (tools/coverage.sh): an instrumented build of the oracle can stand in for the debug profile
    if profile == "debug" and os.environ.get("RTA_ORACLE_DEBUG_BIN"): return os.environ["RTA_ORACLE_DEBUG_BIN"]
    return os.path.join(HARNESS, "target", profile, "rta_oracle")

# ----------------------------------------------------------------------------- running the oracle
def run_oracle(profile, cases, tag, stall_s=6.0, max_timeouts=6):
    """cases: list of (id, query-ast).  Returns {id: canonical result}.  A case that makes no
    progress for stall_s seconds is recorded as ('timeout',) and the oracle restarted after it."""
    os.makedirs(WORK, exist_ok=True)
    path = os.path.join(WORK, "%s.%s.cases" % (tag, profile))
    with open(path, "w") as f:
        for i, q in cases:
            f.write("(%d %s)\n" % (i, sx(q)))
    res = {}
    start = 0
    n = len(cases)
    ntimeouts = 0
    while start < n:
        if ntimeouts >= max_timeouts:
            # the implementation hangs on many cases: every hang costs stall_s seconds; stop and mark the rest
            for cid, _ in cases[start:]: res[cid] = ("skipped",)
            break
        p = subprocess.Popen([oracle_bin(profile), path, str(start)], stdout=subprocess.PIPE,
                             stderr=subprocess.DEVNULL, text=True, bufsize=1)
        got = 0
        last = [time.time()]
        done = [False]
        def watchdog():
            while not done[0]:
                time.sleep(0.5)
                if time.time() - last[0] > stall_s:
                    try: p.kill()
                    except Exception: pass
                    return
        th = threading.Thread(target=watchdog, daemon=True); th.start()
        for line in p.stdout:
            last[0] = time.time()
            line = line.strip()
            if not line: continue
            sp = line.split(None, 1)
            try: cid = int(sp[0])
            except ValueError: continue
            res[cid] = canon_rust(sp[1] if len(sp) > 1 else "")
            got += 1
        p.wait(); done[0] = True
        if start + got < n and p.returncode != 0:
            # the case at index start+got hung or crashed the process
            cid = cases[start + got][0]
            res[cid] = ("timeout",) if p.returncode in (-9, 137) else ("crash",)
            if res[cid] == ("timeout",): ntimeouts += 1
            start = start + got + 1
        else:
            start = start + got
            if got == 0: break
    return res

# ----------------------------------------------------------------------------- running the model
HEADER = ("From RTA.Model Require Poisson.\nFrom RTA.Model Require Import Base Arrival Wcet Demand Supply FixedPoint Analyses Ros2 Eval.\n"
          "Set Printing Width 1000000. Set Printing Depth 100000000.\n")

def run_model(cases, tag, per_case_timeout=20, dbg=True, shards=NCPU, extra_header=""):
    """cases: list of (id, query-ast) -> {id: canonical result}; missing id = Coq timeout/error"""
    os.makedirs(WORK, exist_ok=True)
    shards = max(1, min(shards, (len(cases) + 7) // 8))
    files = []
    for s in range(shards):
        path = os.path.join(WORK, "%s.m%d.v" % (tag, s))
        with open(path, "w") as f:
            f.write(HEADER + extra_header)
            for i, q in cases[s::shards]:
                d = dbg(i, q) if callable(dbg) else dbg
                f.write("Timeout %d Eval vm_compute in (%d, %s).\n" % (per_case_timeout, i, to_coq(q, d)))
        files.append(path)
    procs = []
    for path in files:
        # output goes to files, not pipes: a shard whose answers exceed the pipe buffer would otherwise stall until it is read
        fin = open(path); fout = open(path + ".out", "w"); ferr = open(path + ".err", "w")
        procs.append((subprocess.Popen(["coqtop", "-quiet", "-Q", os.path.join(COQDIR, "Model"), "RTA.Model"],
                                       stdin=fin, stdout=fout, stderr=ferr), fin, fout, ferr, path))
    res = {}
    errs = []
    for p, fin, fout, ferr, path in procs:
        p.wait()
        fin.close(); fout.close(); ferr.close()
        out = open(path + ".out", errors="replace").read(); err = open(path + ".err", errors="replace").read()
        for x in (path + ".out", path + ".err"):
            try: os.remove(x)
            except OSError: pass
        # answers: "     = (ID, TERM)\n     : N * out"
        for m in re.finditer(r"=\s*\((\d+),\s*(.*?)\)\s*:\s*N \* out", out, re.S):
            res[int(m.group(1))] = canon_coq(" ".join(m.group(2).split()))
        e = [l for l in err.splitlines() if "Error" in l or "Timeout" in l]
        errs.extend(e)
    return res, errs

def stable_hash(x):
    return hashlib.sha256(sx(x).encode()).hexdigest()[:16]
