#!/bin/sh
# development aid (not a registered check): quick tier of all (or the given) properties under several seeds on the
# current tree; prints only VIOLATION lines and the one-line summaries.  usage: seedsweep.sh "2 3 4" [C01 C02 ...]
seeds="$1"; shift
props="${@:-C01 C02 C03 C04 C05 C06 C07 C08 C09 C10 C11 C12 C13 C14 C15 C16 C17 C18 C19 C20}"
cd "$(dirname "$0")/.."
for s in $seeds; do for p in $props; do
  VERIF_SEED=$s python3 tools/check.py $p --tier quick 2>&1 | grep "^VIOLATION\|obligations" | sed "s/^/seed=$s /"
done; done
