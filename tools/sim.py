#!/usr/bin/env python3
"""Independent discrete-time uniprocessor scheduler (search aid / oracle for C01-C03, C18; never a proof).
Jobs: dicts task, arr, cost, pps (sorted preemption points: service levels at which the job may be
preempted; 0 and cost always included).  Policies: key functions (smaller = higher priority)."""

def simulate(jobs, key, horizon):
    """returns completion time per job (None if not complete by horizon)"""
    n = len(jobs)
    svc = [0] * n; done = [None] * n
    cur = None
    order = sorted(range(n), key=lambda k: jobs[k]["arr"])
    for t in range(horizon):
        if cur is not None:
            j = jobs[cur]
            if svc[cur] >= j["cost"]: cur = None
            elif svc[cur] in j["pps"]: cur = None          # at a preemption point: re-decide
        if cur is None:
            best = None
            for k in order:
                if jobs[k]["arr"] > t: break
                if done[k] is None and (best is None or key(k) < key(best)): best = k
            cur = best
        if cur is not None:
            svc[cur] += 1
            if svc[cur] >= jobs[cur]["cost"]:
                done[cur] = t + 1
    return done

def pps_full_preemptive(cost): return set(range(cost + 1))
def pps_nonpreemptive(cost): return {0, cost}
def pps_segments(cost, seg, last=None):
    """segments of length <= seg; if last is given the final segment has exactly min(last, cost) units"""
    pts = {0, cost}
    end = cost - (min(last, cost) if last else 0)
    s = 0
    while s < end:
        s = min(end, s + seg); pts.add(s)
    return pts

def response_times(jobs, done, task):
    return [done[k] - jobs[k]["arr"] if done[k] is not None else None for k in range(len(jobs)) if jobs[k]["task"] == task]
