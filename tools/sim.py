#!/usr/bin/env python3
"""Independent discrete-time uniprocessor scheduler (search aid / oracle for C01-C03, C18; never a proof).
Jobs: dicts task, arr, cost, pps (sorted preemption points: service levels at which the job may be
preempted; 0 and cost always included).  Policies: key functions (smaller = higher priority)."""

def simulate(jobs, key, horizon):
    """returns completion time per job (None if not complete by horizon)"""
    n = len(jobs)
    svc = [0] * n; done = [None] * n
    cur = None
    order = sorted(range(n), key=lambda k: jobs[k]["arr"])
    for t in range(horizon):
        if cur is not None:
            j = jobs[cur]
            if svc[cur] >= j["cost"]: cur = None
            elif svc[cur] in j["pps"]: cur = None          # at a preemption point: re-decide
        if cur is None:
            best = None
            for k in order:
                if jobs[k]["arr"] > t: break
                if done[k] is None and (best is None or key(k) < key(best)): best = k
            cur = best
        if cur is not None:
            svc[cur] += 1
            if svc[cur] >= jobs[cur]["cost"]:
                done[cur] = t + 1
    return done

def pps_full_preemptive(cost): return set(range(cost + 1))
def pps_nonpreemptive(cost): return {0, cost}
def pps_segments(cost, seg, last=None):
    """segments of length <= seg; if last is given the final segment has exactly min(last, cost) units"""
    pts = {0, cost}
    end = cost - (min(last, cost) if last else 0)
    s = 0
    while s < end:
        s = min(end, s + seg); pts.add(s)
    return pts

def response_times(jobs, done, task):
    return [done[k] - jobs[k]["arr"] if done[k] is not None else None for k in range(len(jobs)) if jobs[k]["task"] == task]

# ----------------------------------------------------------------------------- ROS 2 single-threaded executor
def worst_supply(Q, D, P, horizon):
    """budget as early as possible in period 0, as late as the deadline allows afterwards (Spec worst_sigma)"""
    s = []
    for t in range(horizon):
        if t < P: s.append(t < Q)
        else:
            r = t % P; s.append(D - Q <= r < D)
    return s

def executor(callbacks, chains, releases, supply, horizon):
    """callbacks: list of dict(kind='timer'|'polled', prio, cost) (index = id; smaller prio = higher priority);
    chains: dict cb -> next cb triggered at completion; releases: list of (time, cb) external arrivals;
    supply: list of bool per slot.  Returns list of (cb, arrival, completion, chain_source_arrival)."""
    pending = {i: [] for i in range(len(callbacks))}      # cb -> list of (arrival, source_arrival), FIFO
    rel = sorted(releases)
    ri = 0
    ready = []                                              # polled callbacks admitted at the last polling point
    running = None                                          # (cb, remaining, arrival, src)
    done = []
    served = [0] * len(callbacks)
    for t in range(horizon):
        while ri < len(rel) and rel[ri][0] <= t:
            pending[rel[ri][1]].append((rel[ri][0], rel[ri][0])); ri += 1
        if not supply[t]: continue
        if running is None:
            timers = [i for i, c in enumerate(callbacks) if c["kind"] == "timer" and pending[i]]
            pick = None
            if timers: pick = min(timers, key=lambda i: callbacks[i]["prio"])
            else:
                if not ready:
                    ready = [i for i, c in enumerate(callbacks) if c["kind"] == "polled" and pending[i]]      # polling point
                if ready:
                    pick = min(ready, key=lambda i: callbacks[i]["prio"]); ready.remove(pick)
            if pick is not None:
                a, src = pending[pick].pop(0)
                fr = callbacks[pick].get("frames")
                c = fr[served[pick] % len(fr)] if fr else callbacks[pick]["cost"]       # multiframe: costs cycle per instance
                served[pick] += 1
                if c == 0:
                    done.append((pick, a, t, src))
                    if pick in chains: pending[chains[pick]].append((t, src))
                    continue
                running = [pick, c, a, src]
        if running is not None:
            running[1] -= 1
            if running[1] == 0:
                cb, _, a, src = running
                done.append((cb, a, t + 1, src))
                if cb in chains: pending[chains[cb]].append((t + 1, src))
                running = None
    return done
