#!/usr/bin/env python3
"""Fingerprints of /repo/src/**/*.rs (comments and whitespace removed).  source_pins.json records the fingerprints of the
tree the model was last validated against (thorough tier green).  A check never fails because a fingerprint differs -- a
harmless rewrite is not a violation -- but a changed file inside a property's cone ESCALATES that property's quick check
(more correspondence cases, more oracle runs), because that is exactly when the model may no longer describe the code.
usage: srcpins.py --update | --show"""
import os, re, sys, json, hashlib
VERIF = os.path.dirname(os.path.dirname(os.path.abspath(__file__)))
REPO = os.environ.get("RTA_REPO", "/repo")
PINS = os.path.join(VERIF, "source_pins.json")

def normalize(src):
    src = re.sub(r"/\*.*?\*/", " ", src, flags=re.S)
    src = re.sub(r"//[^\n]*", " ", src)
    return re.sub(r"\s+", " ", src).strip()

def current():
    out = {}
    root = os.path.join(REPO, "src")
    for d, _, files in os.walk(root):
        for f in files:
            if f.endswith(".rs"):
                p = os.path.join(d, f)
                out[os.path.relpath(p, REPO)] = hashlib.sha256(normalize(open(p, errors="replace").read()).encode()).hexdigest()[:16]
    return out

def pinned():
    return json.load(open(PINS)).get("files", {}) if os.path.exists(PINS) else {}

def changed():
    cur, pin = current(), pinned()
    return sorted(f for f in set(cur) | set(pin) if cur.get(f) != pin.get(f))

COMMON = ["src/time.rs", "src/fixed_point.rs", "src/lib.rs"]
LAYERS = ["src/arrival/", "src/demand/", "src/wcet/", "src/supply/"]
ANALYSIS_PROPS = {"C01", "C02", "C03", "C04", "C05", "C06", "C07", "C17", "C18", "C19", "C20"}

def cone(pid):
    """files whose change can affect the property: its anchors, the common core, and (for the analyses) every model layer"""
    files = set(COMMON)
    for line in open(os.path.join(VERIF, "properties.jsonl")):
        p = json.loads(line)
        if p["id"] == pid: files |= set(p.get("anchors", {}).get("files", []))
    prefixes = list(LAYERS) if pid in ANALYSIS_PROPS else []
    # a property anchored in a module directory depends on the whole directory (mod.rs re-exports, shared iterators)
    prefixes += sorted({os.path.dirname(f) + "/" for f in files if f.count("/") >= 2})
    return files, prefixes

def changed_in_cone(pid):
    files, prefixes = cone(pid)
    return [f for f in changed() if f in files or any(f.startswith(p) for p in prefixes)]

if __name__ == "__main__":
    if "--update" in sys.argv:
        head = os.popen("git -C %s rev-parse --short HEAD" % REPO).read().strip()
        dirty = os.popen("git -C %s status --short | grep -v '^??'" % REPO).read().strip()
        assert not dirty, "refusing to pin a dirty tree:\n" + dirty
        json.dump(dict(repo_head=head, normalisation="comments and whitespace removed, sha256[:16]", files=current()), open(PINS, "w"), indent=1, sort_keys=True)
        print("pinned", len(current()), "files at", head)
    else:
        print(json.dumps(dict(changed=changed()), indent=1))
