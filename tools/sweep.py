#!/usr/bin/env python3
"""development aid: random correspondence sweep of one family (impl debug/release vs model)"""
import sys, random, time
sys.path.insert(0, '/verif/tools')
import rta, families
fam, seed, n = sys.argv[1], int(sys.argv[2]), int(sys.argv[3])
rng = random.Random(seed)
cases = []
f = getattr(families, fam)
while len(cases) < n:
    for q in f(rng):
        cases.append((len(cases), q))
t0 = time.time()
d = rta.run_oracle('debug', cases, 'sw'); t1 = time.time()
r = rta.run_oracle('release', cases, 'sw'); t2 = time.time()
m, errs = rta.run_model(cases, 'sw'); t3 = time.time()
bad = 0; kinds = {}
for i, q in cases:
    kinds[q[0]] = kinds.get(q[0], 0) + 1
    if d.get(i) != m.get(i) or r.get(i) != m.get(i):
        bad += 1
        if bad <= int(sys.argv[4]) if len(sys.argv) > 4 else 8:
            print(i, rta.sx(q)[:400], '\n   dbg', rta.show(d.get(i))[:300], '\n   rel', rta.show(r.get(i))[:300], '\n   mod', rta.show(m.get(i))[:300])
print('cases', len(cases), kinds, 'mismatches', bad, 'times dbg %.1f rel %.1f model %.1f' % (t1-t0, t2-t1, t3-t2), 'coq errs', len(errs), errs[:3])
res = {}
for i, q in cases:
    k = d.get(i, ('missing',))[0]; res[k] = res.get(k, 0) + 1
print('result kinds', res)
