#!/bin/sh
# development aid: run the thorough tier of several checks sequentially from a snapshot (vp run)
sh ./setup.sh >/dev/null 2>&1
for p in "$@"; do
  /usr/bin/time -f "$p %es" python3 tools/check.py $p --tier thorough 2>&1 | grep -v "^KNOWN-FINDING" | tail -3
done
